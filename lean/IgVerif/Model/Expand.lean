import IgVerif.Model.Macro
/-!
# One level of macro expansion: `CPPManifest::save_expansion` and `CPPManifest::r_expand`

`save` cuts the body of a `#define` into nodes — text chunks, parameter references with their
`#` / `##` marks — leaving string and character literals alone.  `rExpand` substitutes the
arguments.  Not modelled here: `__VA_OPT__`, and the rescan of the result and of the arguments
for further macros (`expand_manifests`); the programs this model is compared on use no other
macro names.
-/
namespace IgVerif.Exp
open IgVerif.Mac

def isSpace (c : Nat) : Bool := c == 32 || (9 ≤ c && c ≤ 13)
def isAlpha (c : Nat) : Bool := (65 ≤ c && c ≤ 90) || (97 ≤ c && c ≤ 122)
def isAlnum (c : Nat) : Bool := isAlpha c || (48 ≤ c && c ≤ 57)
def isIdStart (c : Nat) : Bool := isAlpha c || c == 95
def isIdChar (c : Nat) : Bool := isAlnum c || c == 95

inductive Node where
  /-- a chunk of the body kept as it stands -/
  | text (s : List Nat) (paste : Bool) (expand : Bool)
  /-- the `i`-th parameter -/
  | param (i : Nat) (stringify paste expand : Bool)
deriving Repr, DecidableEq

/-- the last node is the left operand of a `##`: it "shouldn't be expanded" -/
def noExpandLast : List Node → List Node
  | [] => []
  | [.text s p _] => [.text s p false]
  | [.param i s p _] => [.param i s p false]
  | n :: ns => n :: noExpandLast ns

def flush (nodes : List Node) (cur : List Nat) (paste : Bool) : List Node × Bool :=
  if cur.isEmpty then (nodes, paste) else (nodes ++ [.text cur paste true], false)

/-- the characters of a literal after its opening quote, up to and including the closing quote
(or all that is left), and the rest -/
def takeLit (q : Nat) : List Nat → List Nat × List Nat
  | [] => ([], [])
  | c :: r =>
    if c == q then ([c], r)
    else if c == 92 then
      match r with
      | d :: r2 => let t := takeLit q r2; (c :: d :: t.1, t.2)
      | [] => ([c], [])
    else let t := takeLit q r; (c :: t.1, t.2)

def indexOf (names : List (List Nat)) (id : List Nat) : Option Nat :=
  let rec go (i : Nat) : List (List Nat) → Option Nat
    | [] => none
    | n :: ns => if n == id then some i else go (i + 1) ns
  go 0 names

def prevAlnum : Option Nat → Bool
  | some p => isAlnum p
  | none => false

def word (s : String) : List Nat := s.toList.map (·.toNat)
def vaArgs : List Nat := word "__VA_ARGS__"

/-- `save_expansion`: `prev` is the character before the current position (for the digit
separator test), `cur` the chunk collected since `last` -/
def save (names : List (List Nat)) (variadic : Option Nat) :
    Nat → List Nat → Option Nat → List Nat → Bool → Bool → List Node → List Node
  | 0, _, _, cur, _, paste, nodes => (flush nodes cur paste).1
  | _, [], _, cur, _, paste, nodes => (flush nodes cur paste).1
  | fuel + 1, c :: rest, prev, cur, str, paste, nodes =>
    if c == 34 || (c == 39 && !prevAlnum prev) then
      let t := takeLit c rest
      let lit := c :: t.1
      save names variadic fuel t.2 lit.getLast? (cur ++ lit) str paste nodes
    else if isIdStart c then
      let id := c :: rest.takeWhile isIdChar
      let rest' := rest.dropWhile isIdChar
      let pnum := if id == vaArgs then variadic else indexOf names id
      match pnum with
      | some i =>
        let f := flush nodes cur paste
        save names variadic fuel rest' id.getLast? [] false false (f.1 ++ [.param i str f.2 true])
      | none => save names variadic fuel rest' id.getLast? (cur ++ id) str paste nodes
    else if c == 35 then
      let f := flush nodes cur paste
      match rest with
      | 35 :: rest' => save names variadic fuel rest' (some 35) [] str true (noExpandLast f.1)
      | _ => save names variadic fuel rest (some 35) [] true f.2 f.1
    else if isSpace c then
      let f := flush nodes cur paste
      save names variadic fuel rest (some c) [] str f.2 f.1
    else save names variadic fuel rest (some c) (cur ++ [c]) str paste nodes

def saveExpansion (names : List (List Nat)) (variadic : Option Nat) (body : List Nat) : List Node :=
  save names variadic (body.length + 1) body none [] false false []

/-! ### `r_expand` (without rescans) -/

def blank (s : List Nat) : Bool := s.all (fun c => c == 32 || c == 9 || c == 13 || c == 10)

def joinArgs : List (List Nat) → List Nat
  | [] => []
  | [a] => a
  | a :: as => a ++ [44, 32] ++ joinArgs as

/-- append `s` to the result the way `r_expand` does for a substituted parameter -/
def addSubst (result s : List Nat) (paste : Bool) : List Nat :=
  if s.isEmpty then result
  else if result.isEmpty || paste || result.getLast? == some 40 then result ++ s else result ++ 32 :: s

def addText (result s : List Nat) (paste : Bool) : List Nat :=
  if s.isEmpty then result
  else if result.isEmpty || paste || s.head? == some 44 || s.head? == some 41 then result ++ s else result ++ 32 :: s

def dropComma (r : List Nat) : List Nat := if r.getLast? == some 44 then r.dropLast else r

def rExpandGo (variadic : Option Nat) (args : List (List Nat)) (vaAbsent : Bool) :
    List Node → List Nat → Bool → List Nat
  | [], result, _ => result
  | .text s p _ :: ns, result, placemarker =>
    rExpandGo variadic args vaAbsent ns (addText result s (p && !placemarker)) false
  | .param i str p _ :: ns, result, placemarker =>
    let paste := p && !placemarker
    let isVa := variadic == some i
    if isVa && p && vaAbsent then
      -- `, ## __VA_ARGS__` with the variable argument left out: the comma goes
      rExpandGo variadic args vaAbsent ns (dropComma result) (!str)
    else if i < args.length then
      let subst0 := if isVa then joinArgs (args.drop i) else args.getD i []
      let subst := if str then stringify subst0 else subst0
      if subst.isEmpty then rExpandGo variadic args vaAbsent ns result (!str)
      else rExpandGo variadic args vaAbsent ns (addSubst result subst paste) false
    else if str then
      rExpandGo variadic args vaAbsent ns (addSubst result (stringify []) paste) false
    else if isVa && p then
      rExpandGo variadic args vaAbsent ns (dropComma result) true
    else rExpandGo variadic args vaAbsent ns result true

def rExpand (variadic : Option Nat) (nodes : List Node) (args : List (List Nat)) : List Nat :=
  -- the variable argument has tokens (two or more variable arguments have a comma between them) …
  let haveVa := match variadic with
    | some v => (args.drop v).any (fun a => !blank a) || v + 1 < args.length
    | none => false
  -- … or is left out: there is none, or a macro with no other parameter is invoked with empty parentheses
  let vaAbsent := match variadic with
    | some v => args.length ≤ v || (v == 0 && args.length == 1 && !haveVa)
    | none => false
  rExpandGo variadic args vaAbsent nodes [] false

/-- `#define M(names…) body` used as `M(args…)`, nothing else defined -/
def expandOnce (names : List (List Nat)) (variadic : Option Nat) (body : List Nat) (args : List (List Nat)) : List Nat :=
  rExpand variadic (saveExpansion names variadic body) args

end IgVerif.Exp
