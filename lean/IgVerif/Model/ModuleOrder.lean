/-!
# Library initialisation order of `interrogate_module -python-native`

`write_python_table_native`: the `std::map<string, std::set<string>>` of
cross-library dependencies and the `while` loop that emits libraries whose
dependencies are all emitted, breaking a dependency of a cycle when a pass makes
no progress.  Library names are `String`; maps and sets are ascending lists.
-/
namespace IgVerif.MO

abbrev Deps := List (String × List String)

def insSorted (x : String) : List String → List String
  | [] => [x]
  | y :: ys => if x == y then y :: ys else if x < y then x :: y :: ys else y :: insSorted x ys

def Deps.get (d : Deps) (k : String) : List String :=
  match d with
  | [] => []
  | (k', v) :: rest => if k' == k then v else Deps.get rest k

def Deps.has (d : Deps) (k : String) : Bool := d.any (fun p => p.1 == k)

/-- overwrite the value stored under an existing key -/
def Deps.replace (d : Deps) (k : String) (v : List String) : Deps :=
  match d with
  | [] => []
  | (k', v') :: rest => if k' == k then (k, v) :: rest else (k', v') :: Deps.replace rest k v

/-- insert a new key at its place in the ascending order -/
def Deps.insert (d : Deps) (k : String) (v : List String) : Deps :=
  match d with
  | [] => [(k, v)]
  | (k', v') :: rest => if k < k' then (k, v) :: (k', v') :: rest else (k', v') :: Deps.insert rest k v

/-- `dependencies[k] = v` -/
def Deps.set (d : Deps) (k : String) (v : List String) : Deps :=
  if d.has k then d.replace k v else d.insert k v

/-- `dependencies[k]` used as an rvalue: inserts an empty set when `k` is missing -/
def Deps.touch (d : Deps) (k : String) : Deps := if d.has k then d else d.set k []

def Deps.keys (d : Deps) : List String := d.map (·.1)

/-- `dependencies[a].insert(b)` -/
def Deps.addEdge (d : Deps) (a b : String) : Deps := d.set a (insSorted b (d.get a))

/-- one iteration of the `for` loop of a pass: prune the emitted libraries from
`name`'s set; emit `name` when nothing remains and it is not emitted yet -/
def passOne (st : Deps × List String × Bool) (name : String) : Deps × List String × Bool :=
  let (d, libs, added) := st
  let ds := (d.get name).filter (fun x => !libs.contains x)
  let d := d.set name ds
  if ds.isEmpty && !libs.contains name then (d, libs ++ [name], true) else (d, libs, added)

def pass (d : Deps) (libs : List String) : Deps × List String × Bool :=
  d.keys.foldl passOne (d, libs, false)

/-- `find_dependency_cycle(cycle, dependencies, visited)`: depth-first search along the
current path; a library already searched (in `vis`) is skipped.  `fuel` bounds the
number of calls.  Returns the map (keys may have been inserted by `operator[]`),
the visited set and the cycle if one was found. -/
def findCycle : Nat → Deps → List String → List String → List String → Deps × List String × Option (List String)
  -- arguments: fuel, map, visited, current path (`cycle`), remaining dependencies of `cycle.back()` to try
  | 0, d, vis, _, _ => (d, vis, none)
  | _, d, vis, _, [] => (d, vis, none)
  | fuel+1, d, vis, path, x :: rest =>
    if path.contains x then
      (d, vis, some (path.dropWhile (fun y => y != x) ++ [x]))
    else if vis.contains x then findCycle fuel d vis path rest
    else
      let d := d.touch x
      match findCycle fuel d (x :: vis) (path ++ [x]) (d.get x) with
      | (d', vis', some c) => (d', vis', some c)
      | (d', vis', none) => findCycle fuel d' vis' path rest

/-- the no-progress branch: for every library that still has dependencies, look
for a cycle through it and erase that cycle's first edge -/
def breakOne (fuel : Nat) (st : Deps × List (String × String)) (name : String) : Deps × List (String × String) :=
  let (d, broken) := st
  if (d.get name).isEmpty then (d, broken)
  else
    let d := d.touch name
    match findCycle fuel d [] [name] (d.get name) with
    | (d', _, some (a :: b :: _)) => (d'.set a ((d'.get a).filter (fun x => x != b)), broken ++ [(a, b)])
    | (d', _, _) => (d', broken)

def breakCycles (fuel : Nat) (d : Deps) : Deps × List (String × String) :=
  d.keys.foldl (breakOne fuel) (d, [])

/-- number of keys and of edges -/
def Deps.edges (d : Deps) : Nat := (d.map (fun p => p.2.length)).sum

/-- generous fuel: every round either emits a library, erases an edge or inserts a key
(`c16_terminates` proves it is never exhausted) -/
def fuelFor (d : Deps) : Nat := d.length + 3 * d.edges + 3

structure Result where
  libs : List String
  broken : List (String × String)
  finished : Bool
deriving Repr, DecidableEq

/-- the `while (libraries.size() < dependencies.size())` loop -/
def run : Nat → Deps → List String → List (String × String) → Result
  | 0, _, libs, broken => { libs := libs, broken := broken, finished := false }
  | fuel+1, d, libs, broken =>
    if libs.length < d.length then
      let (d', libs', added) := pass d libs
      if added then run fuel d' libs' broken
      else
        let (d'', br) := breakCycles (fuelFor d') d'
        run fuel d'' libs' (broken ++ br)
    else { libs := libs, broken := broken, finished := true }

def order (d : Deps) : Result := run (fuelFor d) d [] []

end IgVerif.MO
