import IgVerif.Model.Path
/-! `CPPPreprocessor::find_include`: where an `#include` is looked for, in which order,
and which "source" class the file gets (own / alternate / system). -/
namespace IgVerif.Inc

inductive Source where
  | loc        -- S_local: the user's own file (found in the working directory, or named on the command line)
  | alternate  -- S_alternate: found next to the includer or through -I
  | system     -- S_system: found through -S
deriving DecidableEq, Repr

structure Cfg where
  quoteDirs : List (String × Source)   -- -I dir (alternate) and -S dir (system), in command-line order
  angleDirs : List String              -- -S dirs only
  noangles : Bool
deriving Repr

def joinDir (d name : String) : String := if d == "" then name else d ++ "/" ++ name

/-- the candidates `find_include` tries, in order -/
def candidates (cfg : Cfg) (includerDir name : String) (angleForm : Bool) : List (String × Source) :=
  if angleForm && !cfg.noangles then
    cfg.angleDirs.map fun d => (joinDir d name, .system)
  else
    (name, .loc) :: (joinDir includerDir name, .alternate) :: cfg.quoteDirs.map fun p => (joinDir p.1 name, p.2)

def findInclude (ex : String → Bool) (cfg : Cfg) (includerDir name : String) (angleForm : Bool) : Option (String × Source) :=
  (candidates cfg includerDir name angleForm).find? fun c => ex c.1

/-- final classification: a file named on the command line is the user's own however it was reached -/
def classify (explicit : List String) (canonical : String) (s : Source) : Source :=
  if explicit.contains canonical then .loc else s

end IgVerif.Inc
