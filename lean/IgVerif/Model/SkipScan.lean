/-!
# `CPPPreprocessor::skip_false_if_block` at the level of characters

How the text of a skipped group is scanned for the directive that ends it: comments,
string and character literals are passed over; a `#` counts only at the start of a line.
The input is the list of byte codes that `get()` will deliver; `none` is EOF.
`sol` is `_start_of_line` as `get()` maintains it.
-/
namespace IgVerif.Skip

def isSpace (c : Nat) : Bool := c == 32 || (9 ≤ c && c ≤ 13)
def isAlnum (c : Nat) : Bool := (48 ≤ c && c ≤ 57) || (65 ≤ c && c ≤ 90) || (97 ≤ c && c ≤ 122) || c == 95

/-- `_start_of_line` after `get()` returned `c` -/
def solAfter (sol : Bool) (c : Nat) : Bool :=
  if c == 10 then true else if !isSpace c && c != 35 then false else sol

/-- reader state: the character last returned by `get()`, `_start_of_line`, the unread input -/
structure R where
  c : Option Nat
  sol : Bool
  rest : List Nat
deriving Repr, DecidableEq

def get (sol : Bool) : List Nat → R
  | [] => ⟨none, sol, []⟩
  | c :: r => ⟨some c, solAfter sol c, r⟩

/-- `skip_c_comment(c)` (not saving comments): reads through `*/` and returns the `get()` after it -/
def skipC : Nat → R → R
  | 0, s => s
  | fuel + 1, s =>
    match s.c with
    | none => s
    | some 42 =>
      let s1 := get s.sol s.rest
      if s1.c == some 47 then get s1.sol s1.rest else skipC fuel s1
    | some _ => skipC fuel (get s.sol s.rest)

/-- `skip_cpp_comment(c)`: up to and including the newline -/
def skipLine : Nat → R → R
  | 0, s => s
  | fuel + 1, s =>
    match s.c with
    | none => s
    | some 10 => s
    | some _ => skipLine fuel (get s.sol s.rest)

/-- `skip_comment(c)` -/
def skipComment : Nat → R → R
  | 0, s => s
  | fuel + 1, s =>
    if s.c == some 47 then
      match s.rest with
      | 42 :: r => skipComment fuel (skipC (r.length + 1) (get (solAfter s.sol 42) r))
      | 47 :: r => skipLine (r.length + 1) (get (solAfter s.sol 47) r)
      | _ => s
    else s

/-- `skip_whitespace_in_line(c)`: blanks, comments and backslash-newline, but not past the end
of the line (a `#` alone on its line is a null directive) -/
def skipWs : Nat → R → R
  | 0, s => s
  | fuel + 1, s =>
    let s := skipComment (s.rest.length + 1) s
    match s.c with
    | none => s
    | some 92 =>
      (match s.rest with
       | 10 :: r =>
         let s1 := get s.sol (10 :: r)          -- the newline of the continuation
         skipWs fuel (get s1.sol s1.rest)
       | _ => s)
    | some c => if c == 10 || !isSpace c then s else skipWs fuel (get s.sol s.rest)

/-- `get_preprocessor_command`: the word, then blanks other than newline -/
def readWord : Nat → R → List Nat × R
  | 0, s => ([], s)
  | fuel + 1, s =>
    match s.c with
    | some c => if isAlnum c then
        let r := readWord fuel (get s.sol s.rest)
        (c :: r.1, r.2)
      else ([], s)
    | none => ([], s)

def skipBlanks : Nat → R → R
  | 0, s => s
  | fuel + 1, s =>
    match s.c with
    | some c => if c != 10 && isSpace c then skipBlanks fuel (get s.sol s.rest) else s
    | none => s

/-- `get_preprocessor_args` (the text is not kept): to the end of the logical line -/
def readArgs : Nat → R → R
  | 0, s => s
  | fuel + 1, s =>
    match s.c with
    | none => s
    | some 10 => s
    | some 92 =>
      let s1 := get s.sol s.rest      -- whatever follows the backslash is swallowed, a newline too
      readArgs fuel (skipComment (s1.rest.length + 1) (get s1.sol s1.rest))
    | some _ => readArgs fuel (skipComment (s.rest.length + 1) (get s.sol s.rest))

/-- a string literal in skipped text: to the closing quote, or to the end of the (logical) line -/
def skipString : Nat → R → R
  | 0, s => s
  | fuel + 1, s =>
    match s.c with
    | none => s
    | some 10 => s
    | some 34 => s
    | some 92 =>
      let s1 := get s.sol s.rest      -- whatever follows the backslash belongs to the literal, a newline too
      (match s1.c with
       | none => s1
       | some _ => skipString fuel (get s1.sol s1.rest))
    | some _ => skipString fuel (get s.sol s.rest)

inductive End | eof | els | elif | elifdef | elifndef | endif
deriving Repr, DecidableEq

def word (s : String) : List Nat := s.toList.map (·.toNat)

/-- the loop of `skip_false_if_block(true)`: how the group ends and what is left unread
(positioned after the ending directive's line, before its newline is consumed by the caller) -/
def skipGroup : Nat → Nat → R → End × R
  | 0, _, s => (.eof, s)
  | fuel + 1, level, s =>
    match s.c with
    | none => (.eof, s)
    | some c =>
      if c == 35 && s.sol then
        let s1 := skipWs (s.rest.length + 2) (get s.sol s.rest)
        let (cmd, s2) := readWord (s1.rest.length + 2) s1
        let s3 := skipBlanks (s2.rest.length + 2) s2
        let s4 := readArgs (s3.rest.length + 2) (skipComment (s3.rest.length + 1) s3)
        if cmd == word "if" || cmd == word "ifdef" || cmd == word "ifndef" then skipGroup fuel (level + 1) s4
        else if cmd == word "else" then (if level == 0 then (.els, s4) else skipGroup fuel level s4)
        else if cmd == word "elif" then (if level == 0 then (.elif, s4) else skipGroup fuel level s4)
        else if cmd == word "elifdef" then (if level == 0 then (.elifdef, s4) else skipGroup fuel level s4)
        else if cmd == word "elifndef" then (if level == 0 then (.elifndef, s4) else skipGroup fuel level s4)
        else if cmd == word "endif" then (if level == 0 then (.endif, s4) else skipGroup fuel (level - 1) s4)
        else skipGroup fuel level s4
      else if c == 34 then
        let s1 := skipString (s.rest.length + 1) (get s.sol s.rest)
        if s1.c == some 34 then skipGroup fuel level (skipComment (s1.rest.length + 1) (get s1.sol s1.rest))
        else skipGroup fuel level s1
      else if c == 39 then
        let s1 := get s.sol s.rest
        let s2 := if s1.c == some 92 then get s1.sol s1.rest else s1
        let s3 := if s2.c != none && s2.c != some 10 then get s2.sol s2.rest else s2
        if s3.c != none && s3.c != some 10 then skipGroup fuel level (skipComment (s3.rest.length + 1) (get s3.sol s3.rest))
        else skipGroup fuel level s3
      else skipGroup fuel level (skipComment (s.rest.length + 1) (get s.sol s.rest))

/-- entry: `int c = skip_comment(get());` with the reader at the start of a line -/
def skipFalseIfBlock (text : List Nat) : End × R :=
  skipGroup (text.length + 2) 0 (skipComment (text.length + 1) (get true text))

end IgVerif.Skip
