/-!
# The export filters of `interrogateBuilder.cxx`

Every filter is a sequence of early-return guards; a declaration is handed to the database iff no
guard fires.  Visibility: 0 published, 1 public, 2 protected, 3 private.
-/
namespace IgVerif.Ex4

structure Decl where
  isNull : Bool := false
  template : Bool := false
  cFile : Bool := false
  localFile : Bool := true        -- `_file._source == S_local` and not named by `ignorefile`
  vis : Nat := 0
  isStatic : Bool := false
  deleted : Bool := false
  involvesProtected : Bool := false
  ignoreInvolved : Bool := false
  ignoreMember : Bool := false
  rvalueRef : Bool := false
  functionLike : Bool := false     -- manifest with parameters
  scopedDecl : Bool := false       -- out-of-class declaration of a method / scoped element
  isDestructor : Bool := false
  getClassType : Bool := false     -- public static get_class_type(): treated as published
  inheritedPublished : Bool := false   -- override of a published virtual of the single public base
  anyMemberExported : Bool := false    -- struct: some member has vis ≤ minVis
  isGlobal : Bool := true          -- element at namespace scope
  untyped : Bool := false
  deriving Repr, DecidableEq

structure Cfg where
  minVis : Nat        -- 0 by default, 1 under -promiscuous
  deriving Repr, DecidableEq

inductive Gate
  | null | template | cfile | notlocal | notlocalGlobal | vis | visStruct | visUnlessForced | staticOrDeleted | deleted
  | involvesProtected | ignoreInvolved | ignoreMember | rvalue | functionLike | scopedDecl | destructorRule | inheritedVirtualRule | untyped
  deriving Repr, DecidableEq

def forcePublish (d : Decl) : Bool := (d.getClassType && d.isStatic && decide (d.vis ≤ 1)) || (d.isDestructor && decide (d.vis ≤ 1))

/-- does the guard fire (= the declaration is dropped here)? -/
def fires (cfg : Cfg) (d : Decl) : Gate → Bool
  | .null => d.isNull
  | .template => d.template
  | .cfile => d.cFile
  | .notlocal => !d.localFile
  | .notlocalGlobal => d.isGlobal && !d.localFile
  | .vis => decide (d.vis > cfg.minVis)
  | .visStruct => decide (d.vis > cfg.minVis) && !d.anyMemberExported
  | .visUnlessForced => !forcePublish d && decide (d.vis > cfg.minVis)
  | .staticOrDeleted => d.isStatic || d.deleted
  | .deleted => d.deleted
  | .involvesProtected => d.involvesProtected
  | .ignoreInvolved => d.ignoreInvolved
  | .ignoreMember => d.ignoreMember
  | .rvalue => d.rvalueRef
  | .functionLike => d.functionLike
  | .scopedDecl => d.scopedDecl
  | .destructorRule => d.isDestructor && decide (d.vis > 1)
  | .inheritedVirtualRule => d.inheritedPublished
  | .untyped => d.untyped

def passes (gs : List Gate) (cfg : Cfg) (d : Decl) : Bool := gs.all (fun g => !fires cfg d g)

def functionGates : List Gate := [.scopedDecl, .template, .cfile, .notlocal, .vis, .staticOrDeleted, .involvesProtected, .ignoreInvolved, .rvalue]
def structGates : List Gate := [.null, .template, .cfile, .notlocal, .visStruct]
def enumGates : List Gate := [.null, .template, .cfile, .notlocal, .vis]
def manifestGates : List Gate := [.null, .cfile, .notlocal, .vis, .functionLike]
def elementGates : List Gate := [.null, .template, .scopedDecl, .cfile, .notlocalGlobal, .vis, .untyped]
def methodGates : List Gate := [.template, .deleted, .destructorRule, .visUnlessForced, .involvesProtected, .ignoreInvolved, .ignoreMember, .inheritedVirtualRule, .rvalue]

/-- the names the translator gives to the guards it finds, in order -/
def gateName : Gate → String
  | .null => "null" | .template => "template" | .cfile => "cfile" | .notlocal => "notlocal" | .notlocalGlobal => "notlocal_global"
  | .vis => "vis" | .visStruct => "vis!" | .visUnlessForced => "vis_unless_forced" | .staticOrDeleted => "static_or_deleted" | .deleted => "deleted"
  | .involvesProtected => "involves_protected" | .ignoreInvolved => "ignoreinvolved" | .ignoreMember => "ignoremember" | .rvalue => "rvalue"
  | .functionLike => "function_like" | .scopedDecl => "scoped_decl!" | .destructorRule => "destructor_rule!" | .inheritedVirtualRule => "inherited_virtual_rule!"
  | .untyped => "untyped"

end IgVerif.Ex4
