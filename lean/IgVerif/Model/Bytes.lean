/-!
# Byte strings and the decimal integer codec of the `.in` database format

Bytes are modelled as `Nat` (a byte is any `b < 256`; nothing below needs the
bound).  `showInt` mirrors `ostream << int`, `decInt` mirrors `istream >> int`
of libstdc++ in the classic locale: skip `isspace`, optional sign, at least one
digit, the value must fit a 32-bit `int`, otherwise `failbit`.
-/
namespace IgVerif

abbrev Bytes := List Nat

def isDigit (c : Nat) : Bool := 48 ≤ c && c ≤ 57
/-- `isspace` in the "C" locale: space, \t \n \v \f \r -/
def isSpace (c : Nat) : Bool := c == 32 || (9 ≤ c && c ≤ 13)

def digitsRev : Nat → Nat → List Nat     -- fuel, n  (least significant first)
  | 0, _ => []
  | f+1, n => if n < 10 then [48 + n] else (48 + n % 10) :: digitsRev f (n / 10)

/-- decimal digits of `n`, most significant first; `showNat 0 = "0"`. -/
def showNat (n : Nat) : Bytes := (digitsRev (n+1) n).reverse

def showInt (i : Int) : Bytes :=
  if i < 0 then 45 :: showNat i.natAbs else showNat i.toNat

def intMin : Int := -2147483648
def intMax : Int := 2147483647
def FitsInt (i : Int) : Prop := intMin ≤ i ∧ i ≤ intMax
instance (i : Int) : Decidable (FitsInt i) := by unfold FitsInt; exact inferInstance

def skipWs : Bytes → Bytes
  | [] => []
  | c :: cs => if isSpace c then skipWs cs else c :: cs

/-- accumulate leading digits -/
def readAcc : Nat → Bytes → Nat × Bytes
  | acc, [] => (acc, [])
  | acc, c :: cs => if isDigit c then readAcc (acc * 10 + (c - 48)) cs else (acc, c :: cs)

def readNat : Bytes → Option (Nat × Bytes)
  | [] => none
  | c :: cs => if isDigit c then some (readAcc 0 (c :: cs)) else none

/-- outcome of a stream extraction: `fail` = failbit set (reader reports an
error), `throws` = the C++ code would raise (e.g. `vector::reserve` of a negative
count). -/
inductive Err where
  | fail | throws
deriving DecidableEq, Repr

abbrev Dec (α : Type) := Bytes → Except Err (α × Bytes)

/-- `istream >> int` -/
def decInt : Dec Int := fun s =>
  match skipWs s with
  | 45 :: r =>
    match readNat r with
    | some (n, rest) => if (-(n : Int)) < intMin then .error .fail else .ok (-(n : Int), rest)
    | none => .error .fail
  | 43 :: r =>
    match readNat r with
    | some (n, rest) => if (n : Int) > intMax then .error .fail else .ok ((n : Int), rest)
    | none => .error .fail
  | r =>
    match readNat r with
    | some (n, rest) => if (n : Int) > intMax then .error .fail else .ok ((n : Int), rest)
    | none => .error .fail

/-- the next byte is not a digit (or there is none) -/
def NoDigitHead (s : Bytes) : Prop := ∀ c, s.head? = some c → isDigit c = false

def AllSpace (w : Bytes) : Prop := ∀ c ∈ w, isSpace c = true

end IgVerif
