import IgVerif.Model.Codec
/-!
# The `.in` file: header, module strings, six counted sections

Mirrors `InterrogateDatabase::write`, `::read_new`, the header handling of
`::load_latest` and `idf_output_string/idf_input_string(const char*)`.
The six record layouts are a parameter (`Schema`), instantiated with the layouts
extracted from the C++ on every run.
-/
namespace IgVerif

structure Schema where
  function : List Field
  wrapper : List Field
  type : List Field
  manifest : List Field
  element : List Field
  makeSeq : List Field
deriving DecidableEq, Repr

abbrev Entry := Int × List Val

structure DbFile where
  fileId : Int
  lib : Bytes
  hash : Bytes
  mod : Bytes
  functions : List Entry
  wrappers : List Entry
  types : List Entry
  manifests : List Entry
  elements : List Entry
  makeSeqs : List Entry
deriving DecidableEq, Repr, Inhabited

def Dec.bind {α β : Type} (d : Dec α) (f : α → Dec β) : Dec β := fun s =>
  match d s with
  | .error e => .error e
  | .ok (a, r) => f a r

def Dec.pure {α : Type} (a : α) : Dec α := fun s => .ok (a, s)

/-- `idf_output_string(ostream&, const char*)`: a null or empty C string is "0 " -/
def encCStr (s : Bytes) : Bytes :=
  if s.isEmpty then [48, 32] else showNat s.length ++ [32] ++ s ++ [32]

/-- `idf_input_string(istream&, const char*&)`: length 0 returns at once (nothing
skipped); a negative length reaches `new char[length+1]` (modelled as `throws`). -/
def decCStr : Dec Bytes := fun s =>
  match decInt s with
  | .error e => .error e
  | .ok (len, r) =>
    if len == 0 then .ok ([], r)
    else if len < 0 then .error .throws
    else match r with
      | [] => .error .fail
      | _ :: r' => match takeN len.toNat r' with
        | some (str, rest) => .ok (str, rest)
        | none => .error .fail

def encEntry (minor : Nat) (spec : List Field) (e : Entry) : Bytes :=
  showInt e.1 ++ [32] ++ encFields minor [] spec e.2 ++ [10]

def decEntry (minor : Nat) (spec : List Field) : Dec Entry :=
  Dec.bind decInt fun idx => Dec.bind (decFields minor [] spec) fun vals => Dec.pure (idx, vals)

def encSection (minor : Nat) (spec : List Field) (l : List Entry) : Bytes :=
  showNat l.length ++ [10] ++ encList (encEntry minor spec) l

/-- `in >> num; while (num > 0) { in >> index >> record; ... }` -/
def decSection (minor : Nat) (spec : List Field) : Dec (List Entry) :=
  Dec.bind decInt fun n => decN (decEntry minor spec) n.toNat

def curMajor : Int := 3
def curMinor : Nat := 3

/-- body after the header (what `read_new` consumes), in format 3.`minor` -/
def encBody (minor : Nat) (sch : Schema) (f : DbFile) : Bytes :=
  encCStr f.lib ++ (encCStr f.hash ++ (encCStr f.mod ++ (([10] ++
  encSection minor sch.function f.functions) ++ (encSection minor sch.wrapper f.wrappers ++
  (encSection minor sch.type f.types ++ (encSection minor sch.manifest f.manifests ++
  (encSection minor sch.element f.elements ++ (encSection minor sch.makeSeq f.makeSeqs ++ []))))))))

def encHeader (fileId : Int) (minor : Nat) : Bytes :=
  (showInt fileId ++ [10]) ++ ((showInt curMajor ++ [32]) ++ ((showInt (minor : Int) ++ [10]) ++ []))

/-- a file in format 3.`minor` (fields introduced later are not written) -/
def encFileAs (minor : Nat) (sch : Schema) (f : DbFile) : Bytes :=
  encHeader f.fileId minor ++ encBody minor sch f

/-- what `InterrogateDatabase::write` produces (current format) -/
def encFile (sch : Schema) (f : DbFile) : Bytes := encFileAs curMinor sch f

def decBody (sch : Schema) (minor : Nat) (fileId : Int) : Dec DbFile :=
  Dec.bind decCStr fun lib => Dec.bind decCStr fun hash => Dec.bind decCStr fun mod =>
  Dec.bind (decSection minor sch.function) fun fs =>
  Dec.bind (decSection minor sch.wrapper) fun ws =>
  Dec.bind (decSection minor sch.type) fun ts =>
  Dec.bind (decSection minor sch.manifest) fun ms =>
  Dec.bind (decSection minor sch.element) fun es =>
  Dec.bind (decSection minor sch.makeSeq) fun qs =>
  Dec.pure { fileId := fileId, lib := lib, hash := hash, mod := mod, functions := fs, wrappers := ws,
             types := ts, manifests := ms, elements := es, makeSeqs := qs }

/-- header: `input >> file_identifier >> major >> minor` -/
def decHeader : Dec (Int × Int × Int) :=
  Dec.bind decInt fun id => Dec.bind decInt fun maj => Dec.bind decInt fun min => Dec.pure (id, maj, min)

/-- Outcome of `load_latest` for one file -/
structure LoadResult where
  errorFlag : Bool
  merged : Option DbFile
  threw : Bool := false
deriving DecidableEq, Repr

/-- `load_latest` on one request: header, identifier check (flags but goes on),
version gate (flags and skips), body (flags on failure; nothing is merged then
because `read` fills a temporary database first). `expectId = 0` disables the
identifier check. -/
def load (sch : Schema) (expectId : Int) (bytes : Bytes) : LoadResult :=
  match decHeader bytes with
  | .error _ => { errorFlag := true, merged := none }
  | .ok ((id, maj, min), r) =>
    let idBad := expectId != 0 && id != expectId
    if maj != curMajor || min > (curMinor : Int) then { errorFlag := true, merged := none }
    else match decBody sch min.toNat id r with
      | .error .fail => { errorFlag := true, merged := none }
      | .error .throws => { errorFlag := true, merged := none, threw := true }
      | .ok (f, _) => { errorFlag := idBad, merged := some f }

def SchemaWF (sch : Schema) : Bool :=
  fieldsWF sch.function && fieldsWF sch.wrapper && fieldsWF sch.type &&
  fieldsWF sch.manifest && fieldsWF sch.element && fieldsWF sch.makeSeq &&
  decide (maxSince sch.function ≤ curMinor) && decide (maxSince sch.wrapper ≤ curMinor) &&
  decide (maxSince sch.type ≤ curMinor) && decide (maxSince sch.manifest ≤ curMinor) &&
  decide (maxSince sch.element ≤ curMinor) && decide (maxSince sch.makeSeq ≤ curMinor)

def EntryConf (minor : Nat) (spec : List Field) (e : Entry) : Prop :=
  FitsInt e.1 ∧ FieldsConf minor [] spec e.2

def SectionConf (minor : Nat) (spec : List Field) (l : List Entry) : Prop :=
  (l.length : Int) ≤ intMax ∧ ∀ e ∈ l, EntryConf minor spec e

def CStrConf (s : Bytes) : Prop := (s.length : Int) ≤ intMax

/-- what a 3.`minor` writer can produce: every number fits `int`, every record
matches its layout, fields newer than `minor` hold their default 0 -/
def FileConf (minor : Nat) (sch : Schema) (f : DbFile) : Prop :=
  FitsInt f.fileId ∧ CStrConf f.lib ∧ CStrConf f.hash ∧ CStrConf f.mod ∧
  SectionConf minor sch.function f.functions ∧ SectionConf minor sch.wrapper f.wrappers ∧
  SectionConf minor sch.type f.types ∧ SectionConf minor sch.manifest f.manifests ∧
  SectionConf minor sch.element f.elements ∧ SectionConf minor sch.makeSeq f.makeSeqs

end IgVerif
