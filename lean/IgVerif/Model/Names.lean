import IgVerif.Model.Bytes
/-!
# Wrapper symbols: `hash_string`, `clean_identifier`, `hash_function_signature`

Strings are byte lists (`List Nat`), results are `List Char`.
-/
namespace IgVerif.Nm

def m24 : Nat := 16777216   -- 2^24

/-- the accumulation loop of `hash_string(name, shift_offset)` -/
def hashLoop (off : Nat) : List Nat → Nat → Nat → Nat
  | [], hash, _ => hash
  | c :: cs, hash, shift =>
    let shifted := (c * 2 ^ shift) % m24
    let shifted := if shift > 16 then shifted ||| ((c / 2 ^ (24 - shift)) % 256) else shifted
    hashLoop off cs ((hash + shifted) % m24) ((shift + off) % 24)

def encChar (v : Nat) : Char :=
  if v < 26 then Char.ofNat (65 + v)
  else if v < 52 then Char.ofNat (97 + v - 26)
  else if v < 62 then Char.ofNat (48 + v - 52)
  else '_'

def encode24 (h : Nat) : List Char :=
  [encChar (h % 64), encChar (h / 64 % 64), encChar (h / 4096 % 64), encChar (h / 262144 % 64)]

def hashString (name : List Nat) (off : Nat) : List Char :=
  let hash := hashLoop off name 0 0
  let product := hash * 4999
  let hash := (product ^^^ (product / m24)) % m24
  encode24 hash

def isAlnum (c : Nat) : Bool := (48 ≤ c && c ≤ 57) || (65 ≤ c && c ≤ 90) || (97 ≤ c && c ≤ 122)

/-- `clean_identifier`: runs of non-alphanumerics become one `_` when an alphanumeric follows -/
def cleanLoop : List Nat → Bool → List Nat
  | [], _ => []
  | c :: cs, lastInvalid =>
    if isAlnum c then (if lastInvalid then [95, c] else [c]) ++ cleanLoop cs false
    else cleanLoop cs true

def cleanIdentifier (name : List Nat) : List Nat := cleanLoop name false

/-! ## `hash_function_signature` -/

abbrev Sig := List Nat

/-- `_wrappers_by_hash`: hash → remap (by its signature) or the null tombstone -/
abbrev HMap := List (List Char × Option Sig)

def HMap.find (m : HMap) (k : List Char) : Option (Option Sig) :=
  match m with
  | [] => none
  | (k', v) :: rest => if k' == k then some v else HMap.find rest k

def HMap.has (m : HMap) (k : List Char) : Bool := (m.find k).isSome

def HMap.setv (m : HMap) (k : List Char) (v : Option Sig) : HMap :=
  match m with
  | [] => [(k, v)]
  | (k', v') :: rest => if k' == k then (k, v) :: rest else (k', v') :: HMap.setv rest k v

/-- `insert`: only when absent; returns whether it inserted -/
def HMap.insertNew (m : HMap) (k : List Char) (v : Option Sig) : HMap × Bool :=
  if m.has k then (m, false) else (m ++ [(k, v)], true)

/-- candidate suffixes tried when the extended hash is taken too: `a` … `z`, then decimal numbers -/
def suffixOf (i : Nat) : List Char :=
  if i < 26 then [Char.ofNat (97 + i)] else (showNat i).map Char.ofNat       -- decimal digits, as `format_string(i)` writes them

/-- first candidate `old ++ suffixOf i`, `i = start, start+1, …`, that is not a key; `fuel` candidates are tried -/
def firstFree (m : HMap) (old : List Char) : Nat → Nat → Option (List Char)
  | 0, _ => none
  | fuel+1, i => if m.has (old ++ suffixOf i) then firstFree m old fuel (i + 1) else some (old ++ suffixOf i)

/-- a conflict with a live entry: that entry moves to its extended hash, leaving a tombstone at `h5` -/
def relocate (m : HMap) (h5 : List Char) (entry : Option Sig) : HMap :=
  match entry with
  | some other => ((m.setv h5 none).insertNew (h5 ++ hashString other 11) (some other)).1
  | none => m

/-- store the new signature under its extended hash, or under the first free suffixed name -/
def place (m : HMap) (ext : List Char) (sig : Sig) : HMap × Option (List Char) :=
  if !m.has ext then (m ++ [(ext, some sig)], some ext)
  else
    match firstFree m ext (m.length + 1) 0 with
    | some h => (m ++ [(h, some sig)], some h)
    | none => (m, none)

/-- `hash_function_signature(remap)`: returns the new map and the hash given to this signature
(`none` = the repeated-signature `abort()`, or no free name found) -/
def assign (m : HMap) (sig : Sig) : HMap × Option (List Char) :=
  let h5 := hashString sig 5
  match m.find h5 with
  | none => (m ++ [(h5, some sig)], some h5)
  | some entry =>
    if entry == some sig then (m, none)       -- "Function signature repeated" → abort()
    else place (relocate m h5 entry) (h5 ++ hashString sig 11) sig

/-- hashes handed out to a sequence of signatures -/
def assignAll : HMap → List Sig → List (Option (List Char))
  | _, [] => []
  | m, s :: ss => let r := assign m s; r.2 :: assignAll r.1 ss

end IgVerif.Nm
