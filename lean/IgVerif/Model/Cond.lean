import IgVerif.Model.Expr
/-!
# Conditional inclusion: interrogate's stack-free skipper versus the nested-group semantics

`run` is `process_directive` + `skip_false_if_block` as written: there is no stack
of open conditionals.  In *active* mode a true `#if` simply continues, an
`#else/#elif*` met while active skips to the matching `#endif` ignoring further
`#elif`s, and `#endif` is a no-op.  In *skip* mode nested `#if*` bump a counter;
at level 0 `#else` resumes, `#elif*` re-test, `#endif` resumes.

`specBs` is the reference: a tree of groups, at most one group of each
conditional is kept — the first whose condition is true.

The machine is generic in the environment type and in what conditions/effects
are (`Env → Bool`, `Env → Env`); `Concrete` below instantiates it with macro
tables and C07 expressions for the driver.
-/
namespace IgVerif.Cond

variable {Env : Type}

abbrev Out (Env : Type) := Env × List Nat

inductive Dir (Env : Type) where
  | ifc (c : Env → Bool)      -- #if / #ifdef / #ifndef
  | elifc (c : Env → Bool)    -- #elif / #elifdef / #elifndef
  | elsec
  | endif
  | text (m : Nat)            -- a marker declaration (observable when kept)
  | eff (f : Env → Env)       -- #define / #undef / #include / #error … (acts on the environment when kept)

mutual
inductive Block (Env : Type) where
  | text (m : Nat)
  | eff (f : Env → Env)
  | cond (c : Env → Bool) (thn : Blocks Env) (rest : Tail Env)
inductive Blocks (Env : Type) where
  | nil
  | cons (b : Block Env) (bs : Blocks Env)
inductive Tail (Env : Type) where
  | endif
  | els (bs : Blocks Env)
  | elif (c : Env → Bool) (thn : Blocks Env) (rest : Tail Env)
end

mutual
def flattenB : Block Env → List (Dir Env)
  | .text m => [.text m]
  | .eff f => [.eff f]
  | .cond c t r => .ifc c :: (flattenBs t ++ flattenT r)
def flattenBs : Blocks Env → List (Dir Env)
  | .nil => []
  | .cons b bs => flattenB b ++ flattenBs bs
def flattenT : Tail Env → List (Dir Env)
  | .endif => [.endif]
  | .els bs => .elsec :: (flattenBs bs ++ [.endif])
  | .elif c t r => .elifc c :: (flattenBs t ++ flattenT r)
end

def seqOut (a : Out Env) (k : Env → Out Env) : Out Env := let r := k a.1; (r.1, a.2 ++ r.2)

mutual
def specB (env : Env) : Block Env → Out Env
  | .text m => (env, [m])
  | .eff f => (f env, [])
  | .cond c t r => if c env then specBs env t else specT env r
def specBs (env : Env) : Blocks Env → Out Env
  | .nil => (env, [])
  | .cons b bs => seqOut (specB env b) (fun e => specBs e bs)
def specT (env : Env) : Tail Env → Out Env
  | .endif => (env, [])
  | .els bs => specBs env bs
  | .elif c t r => if c env then specBs env t else specT env r
end

/-- interrogate's machine: mode = `none` (active) | `some (consider_elifs, level)` (skipping) -/
def run : Option (Bool × Nat) → Env → List (Dir Env) → Out Env
  | _, env, [] => (env, [])
  | none, env, .text m :: ds => let r := run none env ds; (r.1, m :: r.2)
  | none, env, .eff f :: ds => run none (f env) ds
  | none, env, .ifc c :: ds => if c env then run none env ds else run (some (true, 0)) env ds
  | none, env, .elifc _ :: ds => run (some (false, 0)) env ds
  | none, env, .elsec :: ds => run (some (false, 0)) env ds
  | none, env, .endif :: ds => run none env ds
  | some (k, l), env, .ifc _ :: ds => run (some (k, l+1)) env ds
  | some (k, l), env, .elsec :: ds =>
      if l = 0 ∧ k = true then run none env ds else run (some (k, l)) env ds
  | some (k, l), env, .elifc c :: ds =>
      if l = 0 ∧ k = true then (if c env then run none env ds else run (some (true, 0)) env ds)
      else run (some (k, l)) env ds
  | some (k, l), env, .endif :: ds =>
      if l = 0 then run none env ds else run (some (k, l-1)) env ds
  | some (k, l), env, .text _ :: ds => run (some (k, l)) env ds
  | some (k, l), env, .eff _ :: ds => run (some (k, l)) env ds

end IgVerif.Cond
