/-!
# `CPPPreprocessor::get_comment_before` — which comment documents a declaration

The comments of one file, listed **from the back** (the C++ code walks `_comments` with a reverse
iterator).  `attached` is the line of the declaration the comment has been handed out for
(0 = not yet; source lines are numbered from 1).
-/
namespace IgVerif.Cm

structure Comment where
  last : Nat        -- line on which the comment ends
  attached : Nat := 0
  deriving Repr, DecidableEq

def adjacent (c : Comment) (line : Nat) : Bool := c.last == line || c.last + 1 == line

/-- position (counted from `k`) of the comment `get_comment_before(line)` returns -/
def findIdx : List Comment → Nat → Nat → Option Nat
  | [], _, _ => none
  | c :: rest, line, k =>
    if adjacent c line then
      if c.attached != 0 && c.attached != line then none else some k
    else if c.last < line then none
    else findIdx rest line (k + 1)

def attach : List Comment → Nat → Nat → List Comment
  | [], _, _ => []
  | c :: rest, 0, line => { c with attached := line } :: rest
  | c :: rest, i + 1, line => c :: attach rest i line

/-- one call of `get_comment_before(line)`: new state and the index handed out -/
def claim (cs : List Comment) (line : Nat) : List Comment × Option Nat :=
  match findIdx cs line 0 with
  | some i => (attach cs i line, some i)
  | none => (cs, none)

/-- the declarations claim their comments one after the other; the log records who got what -/
def claimAll : List Comment → List Nat → List (Nat × Option Nat)
  | _, [] => []
  | cs, l :: ls => (l, (claim cs l).2) :: claimAll (claim cs l).1 ls

end IgVerif.Cm
