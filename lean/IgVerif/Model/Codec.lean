import IgVerif.Model.Bytes
/-!
# Generic record codec of the `.in` database format

A record layout is a list of `Field`s; the encoder/decoder below *interpret*
such a list.  The layouts of the six record kinds are not written here: they
are regenerated from the bodies of the C++ `output()` / `input()` functions on
every run (`IgVerif/Gen/C12_fields.lean`), so the model follows the source.

Mirrors: `idf_output_string` / `idf_input_string`, `idf_output_vector` /
`idf_input_vector`, `InterrogateComponent::output/input`, `ostream << int`,
`istream >> int`.
-/
namespace IgVerif

inductive Atom where
  /-- `out << x << sep`  /  `in >> x` -/
  | int (name : String) (sep : Bytes)
  /-- `idf_output_string(out, x, ws)`  /  `idf_input_string(in, x)` -/
  | str (name : String) (ws : Nat)
deriving DecidableEq, Repr

inductive Field where
  | atom (a : Atom)
  /-- `idf_output_vector(out, v)` of ints -/
  | ints (name : String)
  /-- `out << v.size() << " "; for (s : v) idf_output_string(out, s)` (alt names) -/
  | strs (name : String)
  /-- `idf_output_vector(out, v)` of sub-records (Parameter, Derivation, EnumValue) -/
  | recs (name : String) (sub : List Atom)
  /-- `if (flag & mask) out << x << sep` ; not written/read otherwise, the member keeps `dflt` -/
  | intIf (name : String) (flag : String) (mask : Nat) (dflt : Int) (sep : Bytes)
  /-- always written; read only when the file's minor version is ≥ `minor`, else 0 -/
  | intSince (name : String) (minor : Nat) (sep : Bytes)
deriving DecidableEq, Repr

inductive AVal where
  | int (i : Int)
  | str (s : Bytes)
deriving DecidableEq, Repr, Inhabited

inductive Val where
  | a (v : AVal)
  | ints (l : List Int)
  | strs (l : List Bytes)
  | recs (l : List (List AVal))
deriving DecidableEq, Repr, Inhabited

abbrev Env := List (String × Int)

def Env.get (e : Env) (n : String) : Int :=
  match e.find? (fun p => p.1 == n) with
  | some p => p.2
  | none => 0

def flagSet (e : Env) (flag : String) (mask : Nat) : Bool :=
  ((e.get flag).toNat &&& mask) != 0

/-! ## writer -/

def encStr (ws : Nat) (s : Bytes) : Bytes :=
  showNat s.length ++ [ws] ++ (if s.isEmpty then [] else s ++ [ws])

def encAtom : Atom → AVal → Bytes
  | .int _ sep, .int i => showInt i ++ sep
  | .str _ ws, .str s => encStr ws s
  | _, _ => []

def encAtoms : List Atom → List AVal → Bytes
  | a :: as, v :: vs => encAtom a v ++ encAtoms as vs
  | _, _ => []

def encList {α : Type} (f : α → Bytes) : List α → Bytes
  | [] => []
  | a :: as => f a ++ encList f as

def encInts : List Int → Bytes := encList (fun i => showInt i ++ [32])
def encStrs : List Bytes → Bytes := encList (encStr 32)
def encRecs (sub : List Atom) : List (List AVal) → Bytes := encList (fun r => encAtoms sub r ++ [32])

def envAdd (e : Env) : Field → Val → Env
  | .atom (.int n _), .a (.int i) => (n, i) :: e
  | .intIf n _ _ _ _, .a (.int i) => (n, i) :: e
  | .intSince n _ _, .a (.int i) => (n, i) :: e
  | _, _ => e

def encField (minor : Nat) (e : Env) : Field → Val → Bytes
  | .atom a, .a v => encAtom a v
  | .ints _, .ints l => showNat l.length ++ [32] ++ encInts l
  | .strs _, .strs l => showNat l.length ++ [32] ++ encStrs l
  | .recs _ sub, .recs l => showNat l.length ++ [32] ++ encRecs sub l
  | .intIf _ flag mask _ sep, .a (.int i) => if flagSet e flag mask then showInt i ++ sep else []
  | .intSince _ m sep, .a (.int i) => if minor ≥ m then showInt i ++ sep else []
  | _, _ => []

/-- `minor` = format version being written: fields introduced later are left out
(the current writer uses `curMinor`, under which nothing is left out) -/
def encFields (minor : Nat) (e : Env) : List Field → List Val → Bytes
  | f :: fs, v :: vs => encField minor e f v ++ encFields minor (envAdd e f v) fs vs
  | _, _ => []

/-! ## reader -/

def takeN : Nat → Bytes → Option (Bytes × Bytes)
  | 0, s => some ([], s)
  | _+1, [] => none
  | n+1, c :: cs => match takeN n cs with
    | some (a, r) => some (c :: a, r)
    | none => none

/-- `idf_input_string(istream&, std::string&)`: length, one byte skipped with
`get()`, then `length` raw bytes (none when `length ≤ 0`); EOF sets failbit. -/
def decStr : Dec Bytes := fun s =>
  match decInt s with
  | .error e => .error e
  | .ok (len, r) =>
    match r with
    | [] => .error .fail
    | _ :: r' =>
      match takeN len.toNat r' with
      | some (str, rest) => .ok (str, rest)
      | none => .error .fail

def decAtom : Atom → Dec AVal
  | .int _ _, s => match decInt s with
    | .ok (i, r) => .ok (.int i, r)
    | .error e => .error e
  | .str _ _, s => match decStr s with
    | .ok (b, r) => .ok (.str b, r)
    | .error e => .error e

def decAtoms : List Atom → Dec (List AVal)
  | [], s => .ok ([], s)
  | a :: as, s => match decAtom a s with
    | .error e => .error e
    | .ok (v, r) => match decAtoms as r with
      | .error e => .error e
      | .ok (vs, r') => .ok (v :: vs, r')

def decN {α : Type} (d : Dec α) : Nat → Dec (List α)
  | 0, s => .ok ([], s)
  | n+1, s => match d s with
    | .error e => .error e
    | .ok (v, r) => match decN d n r with
      | .error e => .error e
      | .ok (vs, r') => .ok (v :: vs, r')

/-- `idf_input_vector`: count, `reserve(count)` (throws `length_error` on a
negative count), then `count` elements. -/
def decVec {α : Type} (d : Dec α) : Dec (List α) := fun s =>
  match decInt s with
  | .error e => .error e
  | .ok (len, r) => if len < 0 then .error .throws else decN d len.toNat r

def decField (minor : Nat) (e : Env) : Field → Dec Val
  | .atom a, s => match decAtom a s with
    | .ok (v, r) => .ok (.a v, r)
    | .error x => .error x
  | .ints _, s => match decVec decInt s with
    | .ok (l, r) => .ok (.ints l, r)
    | .error x => .error x
  | .strs _, s => match decVec decStr s with
    | .ok (l, r) => .ok (.strs l, r)
    | .error x => .error x
  | .recs _ sub, s => match decVec (decAtoms sub) s with
    | .ok (l, r) => .ok (.recs l, r)
    | .error x => .error x
  | .intIf _ flag mask dflt _, s =>
    if flagSet e flag mask then
      match decInt s with
      | .ok (i, r) => .ok (.a (.int i), r)
      | .error x => .error x
    else .ok (.a (.int dflt), s)
  | .intSince _ m _, s =>
    if minor ≥ m then
      match decInt s with
      | .ok (i, r) => .ok (.a (.int i), r)
      | .error x => .error x
    else .ok (.a (.int 0), s)

def decFields (minor : Nat) (e : Env) : List Field → Dec (List Val)
  | [], s => .ok ([], s)
  | f :: fs, s => match decField minor e f s with
    | .error x => .error x
    | .ok (v, r) => match decFields minor (envAdd e f v) fs r with
      | .error x => .error x
      | .ok (vs, r') => .ok (v :: vs, r')

/-! ## well-formedness of layouts and conformance of values -/

/-- an `int` must be followed by whitespace unless it is the last item of its
list (then whatever follows the list must not start with a digit) -/
def atomOk (last : Bool) : Atom → Bool
  | .int _ sep => sep.all isSpace && (last || !sep.isEmpty)
  | .str _ ws => isSpace ws

def atomsWF : List Atom → Bool
  | [] => true
  | a :: rest => atomOk rest.isEmpty a && atomsWF rest

def fieldOk (last : Bool) : Field → Bool
  | .atom a => atomOk last a
  | .ints _ => true
  | .strs _ => true
  | .recs _ sub => atomsWF sub
  | .intIf _ _ _ _ sep => sep.all isSpace && !sep.isEmpty
  | .intSince _ _ sep => sep.all isSpace && !sep.isEmpty

def fieldsWF : List Field → Bool
  | [] => true
  | f :: rest => fieldOk rest.isEmpty f && fieldsWF rest

def AtomConf : Atom → AVal → Prop
  | .int _ _, .int i => FitsInt i
  | .str _ _, .str s => (s.length : Int) ≤ intMax
  | _, _ => False

def AtomsConf : List Atom → List AVal → Prop
  | [], [] => True
  | a :: as, v :: vs => AtomConf a v ∧ AtomsConf as vs
  | _, _ => False

def FieldConf (minor : Nat) (e : Env) : Field → Val → Prop
  | .atom a, .a v => AtomConf a v
  | .ints _, .ints l => (l.length : Int) ≤ intMax ∧ ∀ i ∈ l, FitsInt i
  | .strs _, .strs l => (l.length : Int) ≤ intMax ∧ ∀ s ∈ l, (s.length : Int) ≤ intMax
  | .recs _ sub, .recs l => (l.length : Int) ≤ intMax ∧ ∀ r ∈ l, AtomsConf sub r
  | .intIf _ flag mask dflt _, .a (.int i) => FitsInt i ∧ (flagSet e flag mask = false → i = dflt)
  | .intSince _ m _, .a (.int i) => FitsInt i ∧ (minor < m → i = 0)
  | _, _ => False

def FieldsConf (minor : Nat) (e : Env) : List Field → List Val → Prop
  | [], [] => True
  | f :: fs, v :: vs => FieldConf minor e f v ∧ FieldsConf minor (envAdd e f v) fs vs
  | _, _ => False

/-- largest `minor` mentioned by an `intSince` field -/
def maxSince : List Field → Nat
  | [] => 0
  | .intSince _ m _ :: rest => max m (maxSince rest)
  | _ :: rest => maxSince rest

end IgVerif
