/-!
# `CPPManifest::stringify` — the `#` operator

The automaton of the C++ code: `escaped`, `sq` (inside '…'), `dq` (inside "…").
-/
namespace IgVerif.Mac

structure SState where
  escaped : Bool
  sq : Bool
  dq : Bool
  deriving Repr, DecidableEq

def SState.init : SState := ⟨false, false, false⟩
def SState.quoted (s : SState) : Bool := s.sq || s.dq

/-- one iteration of the loop: the new state and the characters appended to `result` -/
def step (st : SState) (c : Nat) : SState × List Nat :=
  if !st.escaped then
    if c == 92 then
      if st.quoted then ({ st with escaped := true }, [92, c]) else (st, [c])
    else if c == 39 then
      (if !st.dq then { st with sq := !st.sq } else st, [c])
    else if c == 34 then
      (if !st.sq then { st with dq := !st.dq } else st, [92, c])
    else (st, [c])
  else
    ({ st with escaped := false }, if c == 92 || c == 34 then [92, c] else [c])

def go : SState → List Nat → List Nat
  | _, [] => []
  | st, c :: cs => (step st c).2 ++ go (step st c).1 cs

/-- `stringify(source)` -/
def stringify (src : List Nat) : List Nat := 34 :: (go SState.init src ++ [34])

/-- how a C compiler reads the body of the produced literal back: `\c` stands for `c`
(for `\\` and `\"`; other escape sequences never start at a position `stringify` produced
without doubling the backslash) -/
def unescape : List Nat → List Nat
  | [] => []
  | [c] => [c]
  | c :: d :: rest => if c == 92 then d :: unescape rest else c :: unescape (d :: rest)

/-- the source is a sequence of well-lexed tokens for the automaton: no backslash outside a
literal -/
def wellLexed : SState → List Nat → Bool
  | _, [] => true
  | st, c :: cs => (st.escaped || st.quoted || c != 92) && wellLexed (step st c).1 cs

end IgVerif.Mac
