import IgVerif.Model.Db
/-!
# `remap_indices`, `merge_from`, lazy loading, lookup caches, unique-name search

`RemapCfg` lists, per record kind, the members that `remap_indices()` passes
through `remap.map_from()` — extracted from the C++ bodies on every run.
-/
namespace IgVerif

/-- `IndexRemapper`: `std::map<int,int>`, `add_mapping` overwrites, `map_from` is identity off the map -/
abbrev Remap := List (Int × Int)

def Remap.find (r : Remap) (k : Int) : Option Int :=
  match r with
  | [] => none
  | (a, b) :: rest => if a == k then some b else Remap.find rest k

def Remap.add (r : Remap) (fro to : Int) : Remap := (fro, to) :: r.filter (fun p => p.1 != fro)
def Remap.mapFrom (r : Remap) (i : Int) : Int := (r.find i).getD i
def Remap.inMap (r : Remap) (i : Int) : Bool := (r.find i).isSome

abbrev RemapCfg := List (String × List String)

def RemapCfg.of (c : RemapCfg) (k : Kind) : List String :=
  match c.find? (fun p => p.1 == k.name) with
  | some p => p.2
  | none => []

def remapAtoms (rm : Remap) (members : List String) (vec : String) : List Atom → List AVal → List AVal
  | a :: as, .int i :: vs =>
    (if members.contains (vec ++ "." ++ atomName a) then AVal.int (rm.mapFrom i) else .int i)
      :: remapAtoms rm members vec as vs
  | _ :: as, v :: vs => v :: remapAtoms rm members vec as vs
  | _, vs => vs

/-- `X::remap_indices(remap)` for one record -/
def remapRec (rm : Remap) (members : List String) : List Field → List Val → List Val
  | f :: fs, v :: vs =>
    let n := fieldName f
    let v' := match f, v with
      | .recs _ sub, .recs l => Val.recs (l.map (remapAtoms rm members n sub))
      | _, .a (.int i) => if members.contains n then .a (.int (rm.mapFrom i)) else v
      | _, .ints l => if members.contains n then .ints (l.map rm.mapFrom) else v
      | _, _ => v
    v' :: remapRec rm members fs vs
  | _, vs => vs

/-- first pass of `remap_indices`: number one map consecutively -/
def renumber (m : IMap (List Val)) (first : Int) (rm : Remap) : IMap (List Val) × Int × Remap :=
  m.foldl (fun (acc : IMap (List Val) × Int × Remap) p =>
    (acc.1 ++ [(acc.2.1, p.2)], acc.2.1 + 1, acc.2.2.add p.1 acc.2.1)) ([], first, rm)

/-- `InterrogateDatabase::remap_indices(first_index, remap)`: returns the new
database and the remapper (its `_next_index` is the returned next index). -/
def Db.remapIndices (sch : Schema) (rc : RemapCfg) (db : Db) (first : Int) : Db × Remap :=
  let (ws, n, rm) := renumber db.wrappers first []
  let (fs, n, rm) := renumber db.functions n rm
  let (ts, n, rm) := renumber db.types n rm
  let (ms, n, rm) := renumber db.manifests n rm
  let (es, n, rm) := renumber db.elements n rm
  let (qs, n, rm) := renumber db.makeSeqs n rm
  let fix (k : Kind) (m : IMap (List Val)) : IMap (List Val) :=
    m.map (fun p => (p.1, remapRec rm (rc.of k) (sch.of k) p.2))
  ({ functions := fix .function fs, wrappers := fix .wrapper ws, types := fix .type ts,
     manifests := fix .manifest ms, elements := fix .element es, makeSeqs := fix .makeSeq qs,
     globalFunctions := db.globalFunctions.map rm.mapFrom, allFunctions := db.allFunctions.map rm.mapFrom,
     globalTypes := db.globalTypes.map rm.mapFrom, allTypes := db.allTypes.map rm.mapFrom,
     globalManifests := db.globalManifests.map rm.mapFrom, globalElements := db.globalElements.map rm.mapFrom,
     nextIndex := n }, rm)

/-- `merge_from(other)` -/
def Db.mergeFrom (sch : Schema) (fc : FlagCfg) (rc : RemapCfg) (this other : Db) : Db :=
  let sp := sch.type
  -- types_by_name of this database (true name; last writer wins, ascending index order)
  let byName : SMap := this.types.foldl (fun (m : SMap) p =>
      let tn := getStr sp p.2 "_true_name"
      if !tn.isEmpty then m.set tn p.1 else m) []
  -- which of the other's types do we already have?
  let rm : Remap := other.types.foldl (fun (r : Remap) p =>
      if !(getStr sp p.2 "_name").isEmpty then
        match byName.find (getStr sp p.2 "_true_name") with
        | some mine => r.add p.1 mine
        | none => r
      else r) []
  let db := other.types.foldl (fun (d : Db) p =>
      if !rm.inMap p.1 then
        -- a new type: add, then remap its references in place
        let d := d.addType sch fc p.1 p.2
        match d.types.find p.1 with
        | some t => { d with types := d.types.set p.1 (remapRec rm (rc.of .type) sp t) }
        | none => d
      else
        let mine := rm.mapFrom p.1
        -- update_type(mine): operator[] default-constructs when absent
        let cur := (d.types.find mine).getD (defaultRec sp)
        let d := if !hasFlag sp cur fc.typeGlobal && hasFlag sp p.2 fc.typeGlobal
                 then { d with globalTypes := d.globalTypes ++ [mine] } else d
        let merged := mergeWith sch fc cur (remapRec rm (rc.of .type) sp p.2)
        { d with types := d.types.set mine merged }) this
  let db := other.functions.foldl (fun (d : Db) p =>
      let d := d.addFunction sch fc p.1 p.2
      match d.functions.find p.1 with
      | some f => { d with functions := d.functions.set p.1 (remapRec rm (rc.of .function) sch.function f) }
      | none => d) db
  let db := other.wrappers.foldl (fun (d : Db) p =>
      let d := d.addWrapper p.1 p.2
      let w := (d.wrappers.find p.1).getD (defaultRec sch.wrapper)
      { d with wrappers := d.wrappers.set p.1 (remapRec rm (rc.of .wrapper) sch.wrapper w) }) db
  let db := other.manifests.foldl (fun (d : Db) p =>
      let d := d.addManifest p.1 p.2
      let w := (d.manifests.find p.1).getD (defaultRec sch.manifest)
      { d with manifests := d.manifests.set p.1 (remapRec rm (rc.of .manifest) sch.manifest w) }) db
  let db := other.elements.foldl (fun (d : Db) p =>
      let d := d.addElement sch fc p.1 p.2
      let w := (d.elements.find p.1).getD (defaultRec sch.element)
      { d with elements := d.elements.set p.1 (remapRec rm (rc.of .element) sch.element w) }) db
  let db := other.makeSeqs.foldl (fun (d : Db) p =>
      let d := d.addMakeSeq p.1 p.2
      let w := (d.makeSeqs.find p.1).getD (defaultRec sch.makeSeq)
      { d with makeSeqs := d.makeSeqs.set p.1 (remapRec rm (rc.of .makeSeq) sch.makeSeq w) }) db
  db

/-! ## unique-name search -/

/-- `binary_search_wrapper_hash(begin, end, key)` over the module's table; the
recursion narrows to `(mid+1, end)` / `(begin, mid)`. `fuel` only makes the
definition structurally recursive: `names.length + 1` always suffices
(`bsearch_fuel_enough`). -/
def bsearchFuel (names : List (Bytes × Int)) (key : Bytes) : Nat → Nat → Nat → Option Int
  | 0, _, _ => none
  | fuel+1, b, e =>
    if e ≤ b then some (-1)
    else
      let mid := b + (e - b) / 2
      match names[mid]? with
      | none => some (-1)
      | some (name, off) =>
        if name < key then bsearchFuel names key fuel (mid + 1) e
        else if key < name then bsearchFuel names key fuel b mid
        else some off

def bsearch (names : List (Bytes × Int)) (key : Bytes) : Int :=
  (bsearchFuel names key (names.length + 1) 0 names.length).getD (-1)

end IgVerif
