import IgVerif.Model.Cond
/-! Concrete instantiation of the conditional-inclusion machine: macro tables with
integer bodies, `#if` expressions from the C07 model with identifiers and `defined`. -/
namespace IgVerif.Cond

/-- body of an object-like macro: an integer literal, or a single identifier (an alias) -/
inductive MBody where
  | int (v : Int)
  | alias (s : String)
deriving Repr, DecidableEq

structure MEnv where
  macros : List (String × MBody) := []
  errors : Nat := 0                      -- `#error` directives acted upon
  includes : List Nat := []              -- `#include` directives acted upon (by marker)
deriving Repr, DecidableEq

/-- `#if` expression before macro expansion -/
inductive CE where
  | int (n : Int)
  | ident (s : String)
  | defined (s : String)
  | un (op : Ex.UnOp) (e : CE)
  | bin (op : Ex.BinOp) (a b : CE)
  | tern (c a b : CE)
deriving Repr, Inhabited

def builtinDefined : List String := ["__has_include", "__FILE__", "__LINE__"]

def MEnv.isDefined (env : MEnv) (s : String) : Bool :=
  env.macros.any (fun p => p.1 == s) || builtinDefined.contains s

/-- `expand_manifests(expr, true)`: macros are expanded (a macro is not re-expanded inside
its own expansion), whatever identifier is left over becomes 0 -/
def MEnv.valueFuel (env : MEnv) : Nat → List String → String → Int
  | 0, _, _ => 0
  | fuel+1, seen, s =>
    if seen.contains s then 0
    else match env.macros.find? (fun p => p.1 == s) with
      | some (_, .int v) => v
      | some (_, .alias t) => env.valueFuel fuel (s :: seen) t
      | none => 0

def MEnv.value (env : MEnv) (s : String) : Int := env.valueFuel (env.macros.length + 1) [] s

/-- macro expansion + `defined` evaluation, yielding a C07 expression -/
def resolve (env : MEnv) : CE → Ex.Expr
  | .int n => .int n
  | .ident s => .int (env.value s)
  | .defined s => .int (if env.isDefined s then 1 else 0)
  | .un op e => .un op (resolve env e)
  | .bin op a b => .bin op (resolve env a) (resolve env b)
  | .tern c a b => .tern (resolve env c) (resolve env a) (resolve env b)

/-- `handle_if_directive`: an expression that cannot be evaluated counts as false (with a warning) -/
def condExpr (e : CE) (env : MEnv) : Bool :=
  match Ex.evaluate (resolve env e) with
  | .int v => v != 0
  | .error => false

def condIfdef (s : String) (env : MEnv) : Bool := env.isDefined s
def condIfndef (s : String) (env : MEnv) : Bool := !env.isDefined s

def effDefine (s : String) (v : Int) (env : MEnv) : MEnv :=
  { env with macros := (s, .int v) :: env.macros.filter (fun p => p.1 != s) }
def effAlias (s t : String) (env : MEnv) : MEnv :=
  { env with macros := (s, .alias t) :: env.macros.filter (fun p => p.1 != s) }
def effUndef (s : String) (env : MEnv) : MEnv :=
  { env with macros := env.macros.filter (fun p => p.1 != s) }
def effError (env : MEnv) : MEnv := { env with errors := env.errors + 1 }
def effInclude (m : Nat) (env : MEnv) : MEnv := { env with includes := env.includes ++ [m] }

end IgVerif.Cond
