/-!
# Types, declarators and the `output_instance` printers of `cpp*Type.cxx`

`oi t pre nm` mirrors `CPPType::output_instance(out, …, prename, name)`: the text is
threaded through two strings, the *prename* (pointer operators collected so far) and the
*name* (declarator-id with the array / parameter suffixes collected so far).  Strings are
token lists here.

`unroll` mirrors `CPPInstanceIdentifier::r_unroll_type` over the modifier list that the
`instance_identifier` productions of `cppBison.yxx` push (innermost first).
-/
namespace IgVerif.CT

inductive Tok
  | ident (s : String) | star | amp | ampamp | kconst | lp | rp | lb | rb | num (n : Nat) | comma | ellipsis
  deriving DecidableEq, Repr

mutual
inductive CType
  | base (s : String)
  | const (t : CType)
  | ptr (t : CType)
  | lref (t : CType)
  | rref (t : CType)
  | arr (t : CType) (n : Option Nat)
  | fn (ret : CType) (ps : CParams) (variadic : Bool)
inductive CParams
  | nil
  | cons (t : CType) (name : Option String) (rest : CParams)
end

mutual
def CType.beq : CType → CType → Bool
  | .base a, .base b => a == b
  | .const a, .const b => CType.beq a b
  | .ptr a, .ptr b => CType.beq a b
  | .lref a, .lref b => CType.beq a b
  | .rref a, .rref b => CType.beq a b
  | .arr a n, .arr b m => CType.beq a b && n == m
  | .fn r ps v, .fn r' ps' v' => CType.beq r r' && CParams.beq ps ps' && v == v'
  | _, _ => false
def CParams.beq : CParams → CParams → Bool
  | .nil, .nil => true
  | .cons t n r, .cons t' n' r' => CType.beq t t' && n == n' && CParams.beq r r'
  | _, _ => false
end

open Tok

def brackets : Option Nat → List Tok
  | some k => [lb, num k, rb]
  | none => [lb, rb]

def isPtrOp : Tok → Bool
  | star => true | amp => true | ampamp => true | _ => false

def nameToks : Option String → List Tok
  | some s => [ident s]
  | none => []

/-! ## the printers -/
mutual
/-- `output_instance` of CPPSimpleType/…(base), CPPConstType, CPPPointerType, CPPReferenceType,
CPPArrayType and CPPFunctionType -/
def oi : CType → List Tok → List Tok → List Tok
  | .base s, pre, nm => ident s :: (pre ++ nm)
  | .const t, pre, nm => oi t (kconst :: pre) nm
  | .ptr t, pre, nm => oi t (star :: pre) nm
  | .lref t, pre, nm => oi t (amp :: pre) nm
  | .rref t, pre, nm => oi t (ampamp :: pre) nm
  | .arr t n, pre, nm =>
    if pre.any isPtrOp then oi t [] (lp :: (pre ++ nm) ++ rp :: brackets n)
    else oi t pre (nm ++ brackets n)
  | .fn r ps v, pre, nm =>
    if pre.isEmpty then oi r [] (nm ++ lp :: (oparams ps v ++ [rp]))
    else oi r [] (lp :: (pre ++ nm) ++ rp :: lp :: (oparams ps v ++ [rp]))
/-- `CPPParameterList::output` -/
def oparams : CParams → Bool → List Tok
  | .nil, v => if v then [ellipsis] else [ident "void"]     -- "No parameters." is written `(void)`
  | .cons t n rest, v => oi t [] (nameToks n) ++ otail rest v
def otail : CParams → Bool → List Tok
  | .nil, v => if v then [comma, ellipsis] else []
  | .cons t n rest, v => comma :: (oi t [] (nameToks n) ++ otail rest v)
end

/-! ## abstract declarators and their ISO meaning ([dcl.meaning]) -/

inductive ADecl
  | name (n : Option String)
  | ptr (c : Bool) (d : ADecl)           -- `* D` / `* const D`
  | lref (d : ADecl)
  | rref (d : ADecl)
  | arr (d : ADecl) (n : Option Nat)     -- `D [n]`
  | fn (d : ADecl) (ps : CParams) (v : Bool)   -- `D (params)`

/-- "In a declaration `T D` where `D` has the form `* cv D1` and the type of the identifier in
`T D1` is *derived-declarator-type-list T*, the type of the identifier of `D` is
*derived-declarator-type-list cv pointer to T*" — and likewise for the other forms. -/
def denote : ADecl → CType → CType
  | .name _, b => b
  | .ptr c d, b => denote d (if c then .const (.ptr b) else .ptr b)
  | .lref d, b => denote d (.lref b)
  | .rref d, b => denote d (.rref b)
  | .arr d n, b => denote d (.arr b n)
  | .fn d ps v, b => denote d (.fn b ps v)

def declName : ADecl → Option String
  | .name n => n
  | .ptr _ d => declName d
  | .lref d => declName d
  | .rref d => declName d
  | .arr d _ => declName d
  | .fn d _ _ => declName d

/-! ## the declarator grammar ([dcl.decl]) as derivation rules -/
mutual
/-- *ptr-declarator* -/
inductive PtrD : List Tok → ADecl → Prop
  | noptr {ts d} : NoPtrD ts d → PtrD ts d
  | ptr {ts d} : PtrD ts d → PtrD (star :: ts) (.ptr false d)
  | ptrc {ts d} : PtrD ts d → PtrD (star :: kconst :: ts) (.ptr true d)
  | lref {ts d} : PtrD ts d → PtrD (amp :: ts) (.lref d)
  | rref {ts d} : PtrD ts d → PtrD (ampamp :: ts) (.rref d)
/-- *noptr-declarator* (a missing declarator-id makes it an abstract declarator) -/
inductive NoPtrD : List Tok → ADecl → Prop
  | id (n : Option String) : NoPtrD (nameToks n) (.name n)
  | arr {ts d} (n : Option Nat) : NoPtrD ts d → NoPtrD (ts ++ brackets n) (.arr d n)
  | fn {ts d pts ps v} : NoPtrD ts d → ParamsG pts ps v → NoPtrD (ts ++ lp :: (pts ++ [rp])) (.fn d ps v)
  | paren {ts d} : PtrD ts d → NoPtrD (lp :: (ts ++ [rp])) d
/-- *parameter-declaration-clause* -/
inductive ParamsG : List Tok → CParams → Bool → Prop
  | empty : ParamsG [] .nil false
  | voidp : ParamsG [ident "void"] .nil false          -- `(void)` is the empty parameter list
  | dots : ParamsG [ellipsis] .nil true
  | list {ts ps v} : ParamList ts ps v → ParamsG ts ps v
/-- non-empty *parameter-declaration-list*, optionally followed by `, ...` -/
inductive ParamList : List Tok → CParams → Bool → Prop
  | one {ts t n} : DeclG ts t n → ParamList ts (.cons t n .nil) false
  | oneV {ts t n} : DeclG ts t n → ParamList (ts ++ [comma, ellipsis]) (.cons t n .nil) true
  | cons {ts t n rest ps v} : DeclG ts t n → ParamList rest ps v → ParamList (ts ++ comma :: rest) (.cons t n ps) v
/-- *decl-specifier-seq declarator*: a type name, optionally `const`, then a declarator -/
inductive DeclG : List Tok → CType → Option String → Prop
  | plain {s ts d} : PtrD ts d → DeclG (ident s :: ts) (denote d (.base s)) (declName d)
  | cst {s ts d} : PtrD ts d → DeclG (ident s :: kconst :: ts) (denote d (.const (.base s))) (declName d)
end

-- the shapes `output_instance` is specified for: `const` wraps a named type or a pointer
mutual
def WF : CType → Bool
  | .base _ => true
  | .const (.base _) => true
  | .const (.ptr t) => WF t
  | .const _ => false
  | .ptr t => WF t
  | .lref t => WF t
  | .rref t => WF t
  | .arr t _ => WF t
  | .fn r ps _ => WF r && WFs ps
def WFs : CParams → Bool
  | .nil => true
  | .cons t _ rest => WF t && WFs rest
end

/-! ## `CPPInstanceIdentifier`: modifiers and `unroll_type` -/

inductive Mod
  | pointer | reference | rvalueRef | const | paren
  | array (n : Option Nat)
  | func (ps : CParams) (v : Bool)

def wrap : Mod → CType → CType
  | .pointer, t => .ptr t
  | .reference, t => .lref t
  | .rvalueRef, t => .rref t
  | .const, t => .const t
  | .paren, t => t
  | .array n, t => .arr t n
  | .func ps v, t => .fn t ps v

/-- `r_unroll_type(start_type, _modifiers.begin())` -/
def unroll : List Mod → CType → CType
  | [], b => b
  | m :: ms, b => wrap m (unroll ms b)

/-- concrete declarators: abstract ones plus redundant parentheses -/
inductive CDecl
  | name (n : Option String)
  | ptr (c : Bool) (d : CDecl)
  | lref (d : CDecl)
  | rref (d : CDecl)
  | arr (d : CDecl) (n : Option Nat)
  | fn (d : CDecl) (ps : CParams) (v : Bool)
  | paren (d : CDecl)

def erase : CDecl → ADecl
  | .name n => .name n
  | .ptr c d => .ptr c (erase d)
  | .lref d => .lref (erase d)
  | .rref d => .rref (erase d)
  | .arr d n => .arr (erase d) n
  | .fn d ps v => .fn (erase d) ps v
  | .paren d => erase d

/-- the modifier list in the order the `instance_identifier` productions push it -/
def mods : CDecl → List Mod
  | .name _ => []
  | .ptr c d => mods d ++ (if c then [.const, .pointer] else [.pointer])
  | .lref d => mods d ++ [.reference]
  | .rref d => mods d ++ [.rvalueRef]
  | .arr d n => mods d ++ [.array n]
  | .fn d ps v => mods d ++ [.func ps v]
  | .paren d => mods d ++ [.paren]

end IgVerif.CT
