/-!
# `CPPScope::find_type`: unqualified lookup of a type name

A scope owns the type names declared in it, the scopes named by using-directives and,
for a class scope, the scopes of its base classes.  `findLocal` is `find_type(name, false)`,
`findType` is `find_type(name)` on the chain of enclosing scopes (innermost first): the parent
chain of a *base class* is never consulted.
-/
namespace IgVerif.Sc

inductive Scope
  | mk (types : List (String × Nat)) (usings : List Scope) (bases : List Scope)

def lookupAssoc : List (String × Nat) → String → Option Nat
  | [], _ => none
  | (k, v) :: rest, n => if k == n then some v else lookupAssoc rest n

mutual
def findLocal : Scope → String → Option Nat
  | .mk types usings bases, n =>
    match lookupAssoc types n with
    | some e => some e
    | none =>
      match findFirst usings n with
      | some e => some e
      | none => findFirst bases n
def findFirst : List Scope → String → Option Nat
  | [], _ => none
  | s :: ss, n =>
    match findLocal s n with
    | some e => some e
    | none => findFirst ss n
end

/-- `find_type(name)` from the innermost scope outwards -/
def findType : List Scope → String → Option Nat
  | [], _ => none
  | s :: outer, n =>
    match findLocal s n with
    | some e => some e
    | none => findType outer n

/-- the C++ rule: the names a scope contributes are its own and, for a class, those of its
bases; lookup takes the innermost enclosing scope that contributes the name -/
def visibleIn (s : Scope) (n : String) : Prop := (findLocal s n).isSome = true

end IgVerif.Sc
