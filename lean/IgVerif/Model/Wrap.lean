/-!
# Handle-style wrappers (`-c`, `-python`): parameter conversion and default-argument expansion

`remapParameter` mirrors the decision chain of `InterfaceMaker::remap_parameter` (string conversion
and reference counting off); each converter is given the meaning of its `pass_parameter` /
`get_return_expr` over a small value model: scalars, and objects that live at addresses.
-/
namespace IgVerif.Wr

/-- what a C++ parameter or return type is, as far as the converters care -/
inductive Cat
  | simple          -- integers of every width, bool, floating point, enums
  | pointer         -- T * / const T * (incl. char *)
  | reference       -- T & / const T & (also to simple types)
  | structValue     -- a class passed or returned by value
  | voidT
  | other           -- e.g. rvalue reference, function: not wrappable
  deriving Repr, DecidableEq

inductive Remap
  | unchanged | referenceToPointer | concreteToPointer
  deriving Repr, DecidableEq

def remapParameter : Cat → Option Remap
  | .reference => some .referenceToPointer
  | .structValue => some .concreteToPointer
  | .pointer => some .unchanged
  | .voidT => some .unchanged
  | .simple => some .unchanged
  | .other => none

/-- values: a scalar, or the object that lives at an address -/
inductive Val
  | scalar (n : Int)
  | objAt (addr : Nat)
  | ptr (addr : Nat)
  deriving Repr, DecidableEq

/-- what the caller of the wrapper passes for a C++ argument `v` of category `c` -/
def toWrapper : Remap → Val → Val
  | .unchanged, v => v
  | .referenceToPointer, .objAt a => .ptr a      -- `&x`
  | .concreteToPointer, .objAt a => .ptr a
  | _, v => v

/-- `pass_parameter`: what the generated call hands to the C++ function -/
def passParameter : Remap → Val → Val
  | .unchanged, v => v
  | .referenceToPointer, .ptr a => .objAt a      -- `*param`
  | .concreteToPointer, .ptr a => .objAt a       -- `*param` (copied by the callee's by-value parameter)
  | _, v => v

/-- `record_function`: one wrapper per omitted trailing default; arities it produces -/
def wrapperArities (nparams ndefaults : Nat) : List Nat :=
  (List.range (ndefaults + 1)).map (fun k => nparams - k)

/-- the arguments a wrapper of arity `a` forwards: its own, then the defaults of the rest -/
def forwarded (args defaults : List Int) (nparams : Nat) : List Int :=
  args ++ (defaults.drop (defaults.length - (nparams - args.length)))

end IgVerif.Wr
