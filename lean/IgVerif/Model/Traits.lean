/-!
# Class traits of `cppStructType.cxx`

`vfuncs` = `get_virtual_funcs`, `isAbstract` = `is_abstract`, `isDefaultV` / `isCopyV` /
`isDestructibleV` = the `(CPPVisibility min_vis)` overloads, `isDefault` / `isCopy` /
`isDestructible` = the public queries.  Visibility is a number: 0 public, 1 protected,
2 private; `vis > minVis` means inaccessible.  Function identity (name + signature, as decided by
`match_virtual_override`) is a number; the destructor is `dtorId`.
-/
namespace IgVerif.Tr

structure SM where
  vis : Nat
  deleted : Bool
  defaulted : Bool
  virt : Bool
  pure : Bool
  deriving Repr, DecidableEq

/-- a member function that takes part in virtual dispatch -/
structure VDecl where
  id : Nat
  virt : Bool
  pure : Bool
  deleted : Bool
  deriving Repr, DecidableEq

structure VF where
  id : Nat
  pure : Bool
  deriving Repr, DecidableEq

def dtorId : Nat := 1000

mutual
inductive Cls
  | mk (bases : Bases) (dctor : Option SM) (octor : Bool) (cctor mctor dtor : Option SM) (massign : Bool) (fields : Fields) (vfns : List VDecl)
inductive Bases
  | nil
  | cons (c : Cls) (vis : Nat) (virt : Bool) (rest : Bases)
inductive Fields
  | nil
  | cons (f : FieldK) (rest : Fields)
inductive FieldK
  | int (init static : Bool)
  | cint (init static : Bool)
  | ref
  | cls (c : Cls) (static : Bool)
end

def ownDecls (vfns : List VDecl) (dtor : Option SM) : List VDecl :=
  vfns ++ (match dtor with
    | some sm => [⟨dtorId, sm.virt, sm.pure, sm.deleted⟩]
    | none => [])

def Cls.decls : Cls → List VDecl
  | .mk _ _ _ _ _ dtor _ _ vfns => ownDecls vfns dtor

def Cls.bases : Cls → Bases
  | .mk b _ _ _ _ _ _ _ _ => b

def Cls.dtor : Cls → Option SM
  | .mk _ _ _ _ _ d _ _ _ => d

/-- one step of `get_virtual_funcs`: drop the inherited entries this class re-declares, then add
this class's own virtual functions (declared virtual, or virtual because they override) -/
def mergeV (inh : List VF) (ds : List VDecl) : List VF :=
  inh.filter (fun vf => !ds.any (fun d => d.id == vf.id)) ++
    (ds.filter (fun d => (d.virt || inh.any (fun vf => vf.id == d.id)) && !d.deleted)).map (fun d => ⟨d.id, d.pure⟩)

mutual
def vfuncs : Cls → List VF
  | .mk bases _ _ _ _ dtor _ _ vfns => mergeV (vfuncsB bases) (ownDecls vfns dtor)
def vfuncsB : Bases → List VF
  | .nil => []
  | .cons c _ _ rest => vfuncs c ++ vfuncsB rest
end

/-- `get_pure_virtual_funcs` non-empty; an inherited pure destructor does not count -/
def isAbstract (c : Cls) : Bool :=
  (vfuncs c).any (fun vf => vf.pure && (vf.id != dtorId || c.dtor.isSome))

def isPolymorphic (c : Cls) : Bool := !(vfuncs c).isEmpty

/-- the gate shared by the three queries for a user-declared member -/
inductive Gate | no | yes | implicit

def gate (sm : SM) (minVis : Nat) : Gate :=
  if sm.vis > minVis then .no
  else if sm.deleted then .no
  else if !sm.defaulted then .yes
  else .implicit

mutual
def isDestructibleV : Cls → Nat → Bool
  | .mk bases _ _ _ _ dtor _ fields _, minVis =>
    match (match dtor with | some sm => gate sm minVis | none => Gate.implicit) with
    | .no => false
    | .yes => true
    | .implicit => destrB bases && destrF fields
def destrB : Bases → Bool
  | .nil => true
  | .cons c _ _ rest => isDestructibleV c 1 && destrB rest
def destrF : Fields → Bool
  | .nil => true
  | .cons f rest => destrK f && destrF rest
def destrK : FieldK → Bool
  | .int _ _ => true
  | .cint _ _ => true
  | .ref => true
  | .cls c st => st || isDestructibleV c 0
end

def isDestructible (c : Cls) : Bool := isDestructibleV c 0

mutual
def isDefaultV : Cls → Nat → Bool
  | .mk bases dctor octor cctor mctor _ _ fields _, minVis =>
    match (match dctor with
           | some sm => gate sm minVis
           | none => if octor || cctor.isSome || mctor.isSome then Gate.no else Gate.implicit) with
    | .no => false
    | .yes => true
    | .implicit => defB bases && defF fields
def defB : Bases → Bool
  | .nil => true
  | .cons c _ _ rest => isDefaultV c 1 && isDestructibleV c 1 && defB rest
def defF : Fields → Bool
  | .nil => true
  | .cons f rest => defK f && defF rest
def defK : FieldK → Bool
  | .int _ _ => true
  | .cint init st => st || init
  | .ref => false
  | .cls c st => st || (!isAbstract c && isDefaultV c 0 && isDestructibleV c 0)
end

def isDefault (c : Cls) : Bool := !isAbstract c && isDefaultV c 0

def ownDtorOk (dtor : Option SM) (minVis : Nat) : Bool :=
  match dtor with
  | some sm => !(sm.vis > minVis) && !sm.deleted
  | none => true

mutual
def isCopyV : Cls → Nat → Bool
  | .mk bases _ _ cctor mctor dtor massign fields _, minVis =>
    match (match cctor with
           | some sm => gate sm minVis
           | none => if mctor.isSome || massign then Gate.no else Gate.implicit) with
    | .no => false
    | .yes => true
    | .implicit => ownDtorOk dtor minVis && copyB bases && copyF fields
def copyB : Bases → Bool
  | .nil => true
  | .cons c _ _ rest => isCopyV c 1 && isDestructibleV c 1 && copyB rest
def copyF : Fields → Bool
  | .nil => true
  | .cons f rest => copyK f && copyF rest
def copyK : FieldK → Bool
  | .int _ _ => true
  | .cint _ _ => true
  | .ref => true
  | .cls c st => st || (!isAbstract c && isCopyV c 0 && isDestructibleV c 0)
end

def isCopy (c : Cls) : Bool := !isAbstract c && isCopyV c 0

/-! ## the rule of [class.virtual] / [class.abstract] for non-virtual inheritance, as a relation -/
mutual
/-- `FinalOv c n p`: in some sub-object of `c` the virtual function `n` has a final overrider
whose pureness is `p` -/
inductive FinalOv : Cls → Nat → Bool → Prop
  | ownVirtual {c : Cls} {d : VDecl} : d ∈ c.decls → d.deleted = false → d.virt = true → FinalOv c d.id d.pure
  | ownOverrides {c : Cls} {d : VDecl} {p : Bool} : d ∈ c.decls → d.deleted = false → InhOv c.bases d.id p → FinalOv c d.id d.pure
  | inherited {c : Cls} {n : Nat} {p : Bool} : InhOv c.bases n p → (∀ d ∈ c.decls, d.id ≠ n) → FinalOv c n p
inductive InhOv : Bases → Nat → Bool → Prop
  | here {b vis virt rest n p} : FinalOv b n p → InhOv (.cons b vis virt rest) n p
  | there {b vis virt rest n p} : InhOv rest n p → InhOv (.cons b vis virt rest) n p
end

end IgVerif.Tr
