/-!
# Overload dispatch of the Python-native back-end (`write_function_for_name` / `write_function_forset`)

The generated code switches on the number of arguments and then tries the remaps of that arity in
the order produced by `RemapCompareLess` (most specific parameter types first); the first one whose
parameter extraction succeeds runs; if none does, `TypeError`.
-/
namespace IgVerif.Dp

/-- parameter categories as the extraction code distinguishes them -/
inductive PCat
  | int | float | str | obj (cls : Nat) (constOk : Bool)
  deriving Repr, DecidableEq

/-- Python argument values, by category -/
inductive PyV
  | int | float | str | none
  | inst (cls : Nat) (isConst : Bool)
  deriving Repr, DecidableEq

structure Remap where
  cats : List PCat
  minArgs : Nat            -- parameters without default
  tag : Nat                -- identity
  deriving Repr, DecidableEq

/-- does extracting a parameter of category `p` from the Python value succeed?  `sub d b` says
class `d` is `b` or derives from it. -/
def accepts (sub : Nat → Nat → Bool) : PCat → PyV → Bool
  | .int, .int => true
  | .float, .float => true
  | .float, .int => true          -- an integer is accepted where a floating-point value is expected
  | .str, .str => true
  | .obj c constOk, .inst d isConst => sub d c && (constOk || !isConst)
  | _, _ => false

def acceptsAll (sub : Nat → Nat → Bool) : List PCat → List PyV → Bool
  | _, [] => true
  | [], _ :: _ => false
  | p :: ps, v :: vs => accepts sub p v && acceptsAll sub ps vs

def viable (sub : Nat → Nat → Bool) (r : Remap) (args : List PyV) : Bool :=
  decide (r.minArgs ≤ args.length) && decide (args.length ≤ r.cats.length) && acceptsAll sub r.cats args

/-- the generated dispatch: the first remap, in emission order, that accepts the arguments -/
def dispatch (sub : Nat → Nat → Bool) (rs : List Remap) (args : List PyV) : Option Remap :=
  rs.find? (fun r => viable sub r args)

end IgVerif.Dp
