/-!
# binary64, correctly rounded decimal→binary conversion, and Grisu2 (`pdtoa`)

Everything is exact integer arithmetic (`Nat`/`Int`); a double is its 64-bit
pattern.  `rneRat` rounds a non-negative rational to the nearest double, ties to
even — the meaning of "correctly rounded".  `grisu2` mirrors `pdtoa.cxx` line by
line (DiyFp, NormalizedBoundaries, GetCachedPower, DigitGen, GrisuRound);
`prettify` mirrors `Prettify`/`WriteExponent`.
-/
namespace IgVerif.Fl

/-! ## binary64 -/

def bitLen (n : Nat) : Nat := if n = 0 then 0 else Nat.log2 n + 1

/-- bits of the double nearest to `N / D` (N, D naturals, D > 0), ties to even; overflow gives +inf -/
def rneRat (N D : Nat) : Nat :=
  if N = 0 then 0
  else
    -- x = N/D.  Choose e with 2^52 ≤ x / 2^e < 2^53 (normal) or e = -1074 (subnormal).
    let est : Int := (bitLen N : Int) - (bitLen D : Int) - 53
    -- q(e) = floor(x / 2^e)
    let q (e : Int) : Nat := if e ≥ 0 then N / (D * 2 ^ e.toNat) else (N * 2 ^ (-e).toNat) / D
    let e0 : Int := if q (est + 1) ≥ 2 ^ 52 then est + 1 else if q est ≥ 2 ^ 52 then est else est - 1
    let e1 : Int := if q e0 ≥ 2 ^ 53 then e0 + 1 else e0
    let e : Int := if e1 < -1074 then -1074 else e1
    let (num, den) : Nat × Nat := if e ≥ 0 then (N, D * 2 ^ e.toNat) else (N * 2 ^ (-e).toNat, D)
    let f := num / den
    let r := num % den
    let f := if 2 * r > den ∨ (2 * r = den ∧ f % 2 = 1) then f + 1 else f
    let (f, e) : Nat × Int := if f ≥ 2 ^ 53 then (f / 2, e + 1) else (f, e)
    if f ≥ 2 ^ 52 then
      let be := e + 1075
      if be ≥ 2047 then 0x7FF0000000000000 else (be.toNat * 2 ^ 52) + (f - 2 ^ 52)
    else f                                             -- subnormal (biased exponent 0)

/-- correctly rounded value of the decimal `m × 10^e10` -/
def rneDec (m : Nat) (e10 : Int) : Nat :=
  if e10 ≥ 0 then rneRat (m * 10 ^ e10.toNat) 1 else rneRat m (10 ^ (-e10).toNat)

structure DiyFp where
  f : Nat
  e : Int
deriving Repr, DecidableEq

def two64 : Nat := 2 ^ 64

def DiyFp.ofBits (bits : Nat) : DiyFp :=
  let be : Nat := (bits / 2 ^ 52) % 2048
  let sig : Nat := bits % 2 ^ 52
  if be ≠ 0 then ⟨sig + 2 ^ 52, (be : Int) - 1075⟩ else ⟨sig, -1074⟩

/-- exact value of a finite non-negative double as the rational `num / den` -/
def valueOfBits (bits : Nat) : Nat × Nat :=
  let d := DiyFp.ofBits (bits % 2 ^ 63)
  if d.e ≥ 0 then (d.f * 2 ^ d.e.toNat, 1) else (d.f, 2 ^ (-d.e).toNat)

def DiyFp.mul (a b : DiyFp) : DiyFp :=
  let p := a.f * b.f
  let h := p / two64
  let l := p % two64
  ⟨if l / 2 ^ 63 % 2 = 1 then h + 1 else h, a.e + b.e + 64⟩

/-- `f << s` with `s = clz(f)`: the top bit of the 64-bit word becomes set -/
def DiyFp.normalize (a : DiyFp) : DiyFp :=
  let s := 64 - bitLen a.f
  ⟨a.f * 2 ^ s, a.e - s⟩

def DiyFp.normalizeBoundary (a : DiyFp) : DiyFp :=
  -- shift until bit 53 is set, then 10 more
  let s := 54 - bitLen a.f
  ⟨a.f * 2 ^ s * 2 ^ 10, a.e - s - 10⟩

def normalizedBoundaries (v : DiyFp) : DiyFp × DiyFp :=
  let pl := (DiyFp.mk (v.f * 2 + 1) (v.e - 1)).normalizeBoundary
  let mi : DiyFp := if v.f = 2 ^ 52 then ⟨v.f * 4 - 1, v.e - 2⟩ else ⟨v.f * 2 - 1, v.e - 1⟩
  (⟨mi.f * 2 ^ (mi.e - pl.e).toNat, pl.e⟩, pl)

/-- the double constant 0.30102999566398114 = 0x1.34413509f79fep-2 exactly -/
def log10_2_num : Nat := 0x134413509f79fe
def log10_2_den : Nat := 2 ^ 54

/-- value of a double-precision product/sum is the rounding of the exact result;
`dk = (-61 - e) * 0.30102999566398114 + 347` evaluated as the C++ does -/
def cachedIndex (e : Int) : Nat × Int :=
  -- (-61 - e) is a small integer, exactly representable.  prod = round(t * c); dk = round(prod + 347).
  let t : Int := -61 - e
  let roundQ (n : Int) (d : Nat) : Nat × Nat :=      -- round n/d (n ≥ 0 here) to double, returned as exact rational
    valueOfBits (rneRat n.toNat d)
  if t < 0 then
    -- dk may be below 347; the product is negative: round magnitude, then subtract
    let (pn, pd) := roundQ (-t * log10_2_num) log10_2_den
    -- dk = round(347 - pn/pd)
    let (dn, dd) := valueOfBits (rneRat (347 * pd - pn) pd)
    let k0 := dn / dd
    let k := if k0 * dd ≠ dn then k0 + 1 else k0
    let index := k / 8 + 1
    (index, -(-348 + (index * 8 : Int)))
  else
    let (pn, pd) := roundQ (t * log10_2_num) log10_2_den
    let (dn, dd) := valueOfBits (rneRat (pn + 347 * pd) pd)
    let k0 := dn / dd
    let k := if k0 * dd ≠ dn then k0 + 1 else k0
    let index := k / 8 + 1
    (index, -(-348 + (index * 8 : Int)))

def countDigits32 (n : Nat) : Nat :=
  if n < 10 then 1 else if n < 100 then 2 else if n < 1000 then 3 else if n < 10000 then 4 else if n < 100000 then 5
  else if n < 1000000 then 6 else if n < 10000000 then 7 else if n < 100000000 then 8 else if n < 1000000000 then 9 else 10

/-- `GrisuRound`: decrement the last digit while that brings the number closer to w -/
def grisuRound : Nat → List Nat → Nat → Nat → Nat → Nat → List Nat
  | 0, buf, _, _, _, _ => buf
  | fuel+1, buf, delta, rest, tenKappa, wpw =>
    if rest < wpw ∧ delta - rest ≥ tenKappa ∧ (rest + tenKappa < wpw ∨ wpw - rest > rest + tenKappa - wpw) then
      let buf' := match buf.reverse with
        | [] => []
        | d :: r => ((d - 1) :: r).reverse
      grisuRound fuel buf' delta (rest + tenKappa) tenKappa wpw
    else buf

/-- `kPow10[n]`: a `uint32_t` table holding 10^0 … 10^9 followed by zeros -/
def kPow10 (n : Nat) : Nat := if n ≤ 9 then 10 ^ n else 0

/-- the second loop of `DigitGen` (fraction digits) -/
def digitGenFrac : Nat → Nat → Nat → Nat → Int → List Nat → Nat → Int → Nat → List Nat × Int
  | 0, _, _, _, _, buf, _, K, _ => (buf, K)
  | fuel+1, p2, delta, oneF, kappa, buf, wpwF, K, sh =>
    let p2 := (p2 * 10) % two64
    let delta := (delta * 10) % two64
    let d := p2 / 2 ^ sh
    let buf := if d ≠ 0 ∨ !buf.isEmpty then buf ++ [d] else buf
    let p2 := p2 % oneF
    let kappa := kappa - 1
    if p2 < delta then
      (grisuRound 20 buf delta p2 oneF ((wpwF * kPow10 (-kappa).toNat) % two64), K + kappa)
    else digitGenFrac fuel p2 delta oneF kappa buf wpwF K sh

/-- the first loop of `DigitGen` (integral digits) -/
def digitGenInt : Nat → Nat → Nat → Nat → Nat → List Nat → Nat → Int → Nat → Nat → Option (List Nat × Int) × (Nat × List Nat)
  | 0, p1, _, _, _, buf, _, _, _, _ => (none, (p1, buf))
  | kappa+1, p1, p2, delta, oneF, buf, wpwF, K, sh, _ =>
    let pw := 10 ^ kappa
    let d := p1 / pw
    let p1 := p1 % pw
    let buf := if d ≠ 0 ∨ !buf.isEmpty then buf ++ [d] else buf
    let tmp := p1 * 2 ^ sh + p2
    if tmp ≤ delta then
      (some (grisuRound 20 buf delta tmp (pw * 2 ^ sh) wpwF, K + kappa), (p1, buf))
    else digitGenInt kappa p1 p2 delta oneF buf wpwF K sh 0

def digitGen (W Mp : DiyFp) (delta : Nat) (K : Int) : List Nat × Int :=
  let sh := (-Mp.e).toNat
  let oneF := 2 ^ sh
  let wpwF := Mp.f - W.f
  let p1 := Mp.f / oneF
  let p2 := Mp.f % oneF
  let kappa := countDigits32 p1
  match digitGenInt kappa p1 p2 delta oneF [] wpwF K sh 0 with
  | (some r, _) => r
  | (none, (_, buf)) => digitGenFrac 400 p2 delta oneF 0 buf wpwF K sh

/-- `Grisu2(value)`: digits (most significant first) and the decimal exponent K: value ≈ digits × 10^K -/
def grisu2 (powers : List (Nat × Int)) (bits : Nat) : List Nat × Int :=
  let v := DiyFp.ofBits bits
  let (wm, wp) := normalizedBoundaries v
  let (index, K) := cachedIndex wp.e
  let c := match powers[index]? with
    | some (f, e) => DiyFp.mk f e
    | none => ⟨0, 0⟩
  let W := v.normalize.mul c
  let Wp := wp.mul c
  let Wm := wm.mul c
  let Wm := { Wm with f := Wm.f + 1 }
  let Wp := { Wp with f := Wp.f - 1 }
  digitGen W Wp (Wp.f - Wm.f) K

/-! ## `Prettify` / `WriteExponent` on digit lists; characters as `Char` -/

def digitChar (d : Nat) : Char := Char.ofNat (48 + d)

def writeExponent (K : Int) : List Char :=
  let (sign, k) : List Char × Nat := if K < 0 then (['-'], (-K).toNat) else ([], K.toNat)
  sign ++
  (if k ≥ 100 then [digitChar (k / 100), digitChar (k % 100 / 10), digitChar (k % 10)]
   else if k ≥ 10 then [digitChar (k / 10), digitChar (k % 10)]
   else [digitChar k])

def prettify (ds : List Nat) (k : Int) : List Char :=
  let length : Int := ds.length
  let kk := length + k
  let cs := ds.map digitChar
  if length ≤ kk ∧ kk ≤ 21 then
    cs ++ List.replicate (kk - length).toNat '0' ++ ['.', '0']
  else if 0 < kk ∧ kk ≤ 21 then
    cs.take kk.toNat ++ ['.'] ++ cs.drop kk.toNat
  else if -6 < kk ∧ kk ≤ 0 then
    ['0', '.'] ++ List.replicate (-kk).toNat '0' ++ cs
  else if ds.length = 1 then
    cs ++ ['e'] ++ writeExponent (kk - 1)
  else
    cs.take 1 ++ ['.'] ++ cs.drop 1 ++ ['e'] ++ writeExponent (kk - 1)

/-- `pdtoa` for finite non-negative doubles -/
def pdtoa (powers : List (Nat × Int)) (bits : Nat) : List Char :=
  if bits = 0 then ['0', '.', '0']
  else if bits = 0x3FF0000000000000 then ['1', '.', '0']
  else
    let (ds, k) := grisu2 powers bits
    prettify ds k

/-! ## reading a decimal literal: digits [. digits] [e [sign] digits] → (mantissa, exponent) -/

def isDig (c : Char) : Bool := '0' ≤ c ∧ c ≤ '9'

def takeDigits : List Char → List Nat × List Char
  | c :: cs => if isDig c then let (ds, r) := takeDigits cs; ((c.toNat - 48) :: ds, r) else ([], c :: cs)
  | [] => ([], [])

def digitsVal (ds : List Nat) : Nat := ds.foldl (fun a d => a * 10 + d) 0

/-- (mantissa, decimal exponent) of the longest valid prefix, as `pstrtod` scans it -/
def scanDecimal (s : List Char) : Option (Nat × Int) :=
  let (ip, r) := takeDigits s
  let (fp, r) := match r with
    | '.' :: r' => takeDigits r'
    | _ => ([], r)
  if ip.isEmpty ∧ fp.isEmpty then none
  else
    let m := digitsVal (ip ++ fp)
    let e0 : Int := -(fp.length : Int)
    match r with
    | c :: r' =>
      if c = 'e' ∨ c = 'E' then
        let (neg, r'') := match r' with
          | '-' :: t => (true, t)
          | '+' :: t => (false, t)
          | t => (false, t)
        let (ed, _) := takeDigits r''
        let ev : Int := digitsVal ed
        some (m, e0 + (if neg then -ev else ev))
      else some (m, e0)
    | [] => some (m, e0)

/-- the locale-independent parser, as specified: the correctly rounded value of the scanned literal -/
def pstrtod (s : List Char) : Option Nat := (scanDecimal s).map fun p => rneDec p.1 p.2

end IgVerif.Fl
