/-!
# `CPPPreprocessor::get_number` — integer literals

Characters are byte codes.  `peek`/`get` over the input are modelled by passing the remaining
input along; `skipSep` is `skip_digit_separator(peek())`.
-/
namespace IgVerif.Lit

def isDec (c : Nat) : Bool := 48 ≤ c && c ≤ 57
def isBin (c : Nat) : Bool := c == 48 || c == 49
def isHex (c : Nat) : Bool := isDec c || (65 ≤ c && c ≤ 70) || (97 ≤ c && c ≤ 102)

def digitVal (c : Nat) : Nat :=
  if isDec c then c - 48 else if 65 ≤ c && c ≤ 70 then c - 55 else c - 87

/-- `skip_digit_separator(peek())` (after the repair: a hex digit may follow the separator): a `'`
directly followed by a digit is dropped -/
def skipSep : List Nat → List Nat
  | 39 :: d :: rest => if isHex d then d :: rest else 39 :: d :: rest
  | s => s

/-- the loop `while (isdigit(c)) { num += get(); c = skip_digit_separator(peek()); }`
for a digit predicate: the digits collected and the remaining input -/
def takeDigits (p : Nat → Bool) : Nat → List Nat → List Nat × List Nat
  | 0, s => ([], s)
  | fuel + 1, s =>
    match s with
    | c :: rest => if p c then
        let r := takeDigits p fuel (skipSep rest)
        (c :: r.1, r.2)
      else ([], s)
    | [] => ([], [])

/-- `strtol(digits, nullptr, base)` on digits that are valid for the base -/
def strtol (base : Nat) (ds : List Nat) : Nat := ds.foldl (fun acc d => acc * base + digitVal d) 0

inductive Kind | hex | bin | oct | dec
  deriving Repr, DecidableEq

/-- `get_number(c)` for integer literals: the value, the kind and the remaining input -/
def getNumber : List Nat → Option (Nat × Kind × List Nat)
  | [] => none
  | c :: rest =>
    if !isDec c then none
    else
      let s := skipSep rest
      if c == 48 && (s.head? == some 120 || s.head? == some 88) then
        let r := takeDigits isHex (s.length + 1) (s.drop 1)
        some (strtol 16 r.1, .hex, r.2)
      else if c == 48 && (s.head? == some 98 || s.head? == some 66) then
        let r := takeDigits isBin (s.length + 1) (s.drop 1)
        some (strtol 2 r.1, .bin, r.2)
      else
        -- `num` starts with `c`; the loop `while (isdigit(c)) …` continues after `skip_digit_separator(peek())`
        let r := takeDigits isDec (rest.length + 2) (c :: rest)
        if c == 48 then some (strtol 8 r.1, .oct, r.2) else some (strtol 10 r.1, .dec, r.2)

/-- a digit string with C++14 separators: `d`, `d'rest`, … -/
def withSeps : List Nat → List Bool → List Nat
  | [], _ => []
  | [d], _ => [d]
  | d :: ds, b :: bs => if b then d :: 39 :: withSeps ds bs else d :: withSeps ds bs
  | d :: ds, [] => d :: withSeps ds []

end IgVerif.Lit
