import IgVerif.Model.DbOps
/-!
# Referential closure and link consistency of a database

`refsRec` lists every index-typed member value of a record together with the
kind it must refer to; which members are index-typed is read from the C++
headers on every run (`Gen.indexMembers`).
-/
namespace IgVerif

abbrev IndexCfg := List (String × List (String × String))

def IndexCfg.of (c : IndexCfg) (k : Kind) : List (String × String) :=
  match c.find? (fun p => p.1 == k.name) with
  | some p => p.2
  | none => []

def targetOf (im : List (String × String)) (member : String) : Option String :=
  (im.find? (fun p => p.1 == member)).map (·.2)

def refsAtoms (im : List (String × String)) (vec : String) : List Atom → List AVal → List (String × Int)
  | a :: as, .int i :: vs =>
    (match targetOf im (vec ++ "." ++ atomName a) with
     | some t => [(t, i)]
     | none => []) ++ refsAtoms im vec as vs
  | _ :: as, _ :: vs => refsAtoms im vec as vs
  | _, _ => []

/-- all (target kind, index value) pairs stored in one record -/
def refsRec (im : List (String × String)) : List Field → List Val → List (String × Int)
  | f :: fs, v :: vs =>
    let n := fieldName f
    (match f, v with
     | .recs _ sub, .recs l => l.flatMap (refsAtoms im n sub)
     | _, .a (.int i) => (match targetOf im n with | some t => [(t, i)] | none => [])
     | _, .ints l => (match targetOf im n with | some t => l.map (fun i => (t, i)) | none => [])
     | _, _ => []) ++ refsRec im fs vs
  | _, _ => []

def Db.keys (db : Db) (kindName : String) : List Int :=
  match Kind.ofString kindName with
  | some k => (db.map k).map (·.1)
  | none => []

def allKinds : List Kind := [.function, .wrapper, .type, .manifest, .element, .makeSeq]

/-- every stored index is 0 ("none") or names an existing entry of the expected kind -/
def Db.danglingRefs (sch : Schema) (ic : IndexCfg) (db : Db) : List (String × Int × String × Int) :=
  allKinds.flatMap fun k =>
    (db.map k).flatMap fun p =>
      ((refsRec (ic.of k) (sch.of k) p.2).filter fun tv => tv.2 != 0 && !(db.keys tv.1).contains tv.2).map
        fun tv => (k.name, p.1, tv.1, tv.2)

def Db.danglingEnums (db : Db) : List (String × Int) :=
  (db.globalTypes.filter (fun i => !(db.keys "type").contains i)).map (fun i => ("global_types", i)) ++
  (db.allTypes.filter (fun i => !(db.keys "type").contains i)).map (fun i => ("all_types", i)) ++
  (db.globalFunctions.filter (fun i => !(db.keys "function").contains i)).map (fun i => ("global_functions", i)) ++
  (db.allFunctions.filter (fun i => !(db.keys "function").contains i)).map (fun i => ("all_functions", i)) ++
  (db.globalManifests.filter (fun i => !(db.keys "manifest").contains i)).map (fun i => ("global_manifests", i)) ++
  (db.globalElements.filter (fun i => !(db.keys "element").contains i)).map (fun i => ("global_elements", i))

def Db.closedB (sch : Schema) (ic : IndexCfg) (db : Db) : Bool :=
  (db.danglingRefs sch ic).isEmpty && db.danglingEnums.isEmpty

/-- wrapper indices are first, first+1, … -/
def consecutiveFrom : Int → List Int → Bool
  | _, [] => true
  | n, k :: ks => k == n && consecutiveFrom (n + 1) ks

/-- function ↔ wrapper links agree in both directions -/
def Db.wrapperLinksB (sch : Schema) (db : Db) : Bool :=
  (db.functions.all fun p =>
    (getInts sch.function p.2 "_c_wrappers" ++ getInts sch.function p.2 "_python_wrappers").all fun w =>
      match db.wrappers.find w with
      | some wr => getInt sch.wrapper wr "_function" == p.1
      | none => false) &&
  (db.wrappers.all fun p =>
    let f := getInt sch.wrapper p.2 "_function"
    f == 0 || (match db.functions.find f with
      | some fr => (getInts sch.function fr "_c_wrappers" ++ getInts sch.function fr "_python_wrappers").contains p.1
      | none => false))

/-- nested type ↔ outer class links agree -/
def Db.nestingLinksB (sch : Schema) (db : Db) : Bool :=
  db.types.all fun p =>
    (getInts sch.type p.2 "_nested_types").all fun n =>
      match db.types.find n with
      | some t => getInt sch.type t "_outer_class" == p.1
      | none => false

/-- class ↔ sequence links agree: every sequence a class lists exists and its getters are
methods of that class; no record is listed twice (by two classes or by one) and none is orphaned -/
def Db.makeSeqLinksB (sch : Schema) (db : Db) : Bool :=
  let listed := db.types.flatMap (fun p => getInts sch.type p.2 "_make_seqs")
  (db.types.all fun p =>
    (getInts sch.type p.2 "_make_seqs").all fun s =>
      match db.makeSeqs.find s with
      | some sq =>
        (getInts sch.type p.2 "_methods").contains (getInt sch.makeSeq sq "_length_getter") &&
        (getInts sch.type p.2 "_methods").contains (getInt sch.makeSeq sq "_element_getter")
      | none => false) &&
  listed.length == listed.eraseDups.length &&
  db.makeSeqs.all (fun q => listed.contains q.1)

/-- follow pointer / const wrappers (`F_wrapped`) down to the underlying type -/
def Db.stripType (sch : Schema) (db : Db) : Nat → Int → Int
  | 0, t => t
  | n + 1, t =>
    match db.types.find t with
    | some r =>
      if (getInt sch.type r "_flags").toNat &&& 128 != 0 then db.stripType sch n (getInt sch.type r "_wrapped_type") else t
    | none => t

/-- function ↔ wrapper ↔ type links agree: a wrapper whose first parameter is flagged `PF_is_this`
takes (a pointer to) the class its function is a method of; the upcast helper a derivation names is
a method of the derived class and the downcast helper a method of the base -/
def Db.thisLinksB (sch : Schema) (db : Db) : Bool :=
  (db.wrappers.all fun p =>
    match db.functions.find (getInt sch.wrapper p.2 "_function"), getRecs sch.wrapper p.2 "_parameters" with
    | some fr, p0 :: _ =>
      let sub := subSpec sch.wrapper "_parameters"
      if (subInt sub p0 "_parameter_flags").toNat &&& 2 != 0
      then db.stripType sch 8 (subInt sub p0 "_type") == getInt sch.function fr "_class"
      else true
    | _, _ => true) &&
  (db.types.all fun p =>
    let sub := subSpec sch.type "_derivations"
    (getRecs sch.type p.2 "_derivations").all fun d =>
      let fl := (subInt sub d "_flags").toNat
      (fl &&& 1 == 0 || (match db.functions.find (subInt sub d "_upcast") with
        | some fr => getInt sch.function fr "_class" == p.1
        | none => true)) &&
      (fl &&& 2 == 0 || (match db.functions.find (subInt sub d "_downcast") with
        | some fr => getInt sch.function fr "_class" == subInt sub d "_base"
        | none => true)))

/-- non-empty unique names are pairwise distinct -/
def Db.uniqueNamesDistinctB (sch : Schema) (db : Db) : Bool :=
  let names := (db.wrappers.map fun p => getStr sch.wrapper p.2 "_unique_name").filter (fun n => !n.isEmpty)
  names.length == names.eraseDups.length

end IgVerif
