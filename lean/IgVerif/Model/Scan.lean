/-!
# Hand-written scanners of `cppPreprocessor.cxx` whose totality C15 depends on

* `scanRaw` — `CPPPreprocessor::scan_raw`: the raw string literal scanner.  `std::string::compare`
  with a start position beyond the end throws `std::out_of_range`; the model makes that outcome
  explicit (`Out.throws`).
* `expandObj` — the recursion of `expand_manifests` / `expand_manifest` over object-like macros
  with the *ignore set* handed down to nested expansions.
-/
namespace IgVerif.Scan

inductive Out (α : Type)
  | ok (a : α)
  | throws
  deriving Repr, DecidableEq

/-- `str.compare(str.size() - delim.size(), delim.size(), delim) == 0`, as the library defines it -/
def compareTail (str delim : List Nat) : Out Bool :=
  if delim.length ≤ str.length then .ok (str.drop (str.length - delim.length) == delim) else .throws

/-- the delimiter: `)` followed by everything up to the opening parenthesis -/
def readDelim : List Nat → List Nat → List Nat × List Nat
  | [], acc => (acc, [])
  | c :: cs, acc => if c == 40 then (acc, cs) else readDelim cs (acc ++ [c])

/-- the body loop of `scan_raw` (after the fix: the length test guards the comparison).
Returns the string and whether the closing quote was seen. -/
def rawLoop (delim : List Nat) : List Nat → List Nat → Out (List Nat × Bool)
  | [], str => .ok (str, false)
  | c :: cs, str =>
    if c == 34 then
      if delim.length ≤ str.length then
        match compareTail str delim with
        | .throws => .throws
        | .ok true => .ok (str.take (str.length - delim.length), true)
        | .ok false => rawLoop delim cs (str ++ [c])
      else rawLoop delim cs (str ++ [c])
    else rawLoop delim cs (str ++ [c])

/-- `scan_raw` on the input that follows `R"` -/
def scanRaw (input : List Nat) : Out (List Nat × Bool) :=
  let d := readDelim input [41]
  rawLoop d.1 d.2 []

/-- the loop as it was before the fix (kept to state what went wrong) -/
def rawLoopOld (delim : List Nat) : List Nat → List Nat → Out (List Nat × Bool)
  | [], str => .ok (str, false)
  | c :: cs, str =>
    if c == 34 then
      match compareTail str delim with
      | .throws => .throws
      | .ok true => .ok (str.take (str.length - delim.length), true)
      | .ok false => rawLoopOld delim cs (str ++ [c])
    else rawLoopOld delim cs (str ++ [c])

/-! ## expansion of object-like macros with an ignore set -/

inductive Tok
  | ident (s : String)
  | other (s : String)
  deriving Repr, DecidableEq

abbrev Table := List (String × List Tok)

def lookup : Table → String → Option (List Tok)
  | [], _ => none
  | (k, v) :: rest, n => if k == n then some v else lookup rest n

/-- names of the table that may still be expanded -/
def live (table : Table) (ignores : List String) : Nat :=
  (table.filter (fun kv => !ignores.contains kv.1)).length

theorem filter_len_le {α : Type} (l : List α) (p q : α → Bool) (h : ∀ x, p x = true → q x = true) :
    (l.filter p).length ≤ (l.filter q).length := by
  induction l with
  | nil => simp
  | cons x xs ih =>
    simp only [List.filter_cons]
    cases hp : p x with
    | false => cases hq : q x <;> simp <;> omega
    | true => simp [h x hp]; omega

theorem live_lt (table : Table) (ignores : List String) (n : String) (body : List Tok)
    (h : lookup table n = some body) (hi : ignores.contains n = false) :
    live table (n :: ignores) < live table ignores := by
  unfold live
  induction table with
  | nil => simp [lookup] at h
  | cons kv rest ih =>
    obtain ⟨k, v⟩ := kv
    simp only [lookup] at h
    have hmono : (rest.filter (fun kv => !(n :: ignores).contains kv.1)).length ≤ (rest.filter (fun kv => !ignores.contains kv.1)).length := by
      apply filter_len_le
      intro x hx
      simp only [List.contains_cons, Bool.not_eq_true', Bool.or_eq_false_iff] at hx
      have := hx.2
      simp only [Bool.not_eq_true']
      exact this
    simp only [List.filter_cons]
    by_cases hk : (k == n) = true
    · have hkn : k = n := by simpa using hk
      subst hkn
      have h1 : (!(k :: ignores).contains k) = false := by simp
      have h2 : (!ignores.contains k) = true := by rw [hi]; rfl
      simp only [h1, h2, Bool.false_eq_true, if_false, if_true, List.length_cons]
      omega
    · have hk' : (k == n) = false := by simpa using hk
      simp only [hk', Bool.false_eq_true, if_false] at h
      have ih' := ih h
      have e : (!(n :: ignores).contains k) = (!ignores.contains k) := by
        simp only [List.contains_cons, hk', Bool.false_or]
      rw [e]
      cases hc : (!ignores.contains k) with
      | false => simpa using ih'
      | true => simp only [if_true, List.length_cons]; omega

/-- `expand_manifests`: every identifier that names a macro not being expanded further up is
replaced by the expansion of its body, in which it is itself ignored **together with everything
ignored so far** (`nested_ignores(ignores)` + `insert`). -/
def expandObj (table : Table) (ignores : List String) : List Tok → List Tok
  | [] => []
  | .other s :: rest => .other s :: expandObj table ignores rest
  | .ident n :: rest =>
    match h : lookup table n with
    | none => .ident n :: expandObj table ignores rest
    | some body =>
      if hi : ignores.contains n then .ident n :: expandObj table ignores rest
      else expandObj table (n :: ignores) body ++ expandObj table ignores rest
termination_by ts => (live table ignores, ts.length)
decreasing_by
  all_goals simp_wf
  · exact Prod.Lex.right _ (by omega)
  · exact Prod.Lex.right _ (by omega)
  · exact Prod.Lex.right _ (by omega)
  · exact Prod.Lex.left _ _ (live_lt table ignores n body h (by simpa using hi))
  · exact Prod.Lex.right _ (by omega)

end IgVerif.Scan
