import IgVerif.Lemmas.Traits
/-!
# C10 — class traits follow the C++ rules
-/
namespace IgVerif.C10
open IgVerif.Tr

/-- **`get_virtual_funcs` computes the final overriders.** For every hierarchy (any depth, any
number of bases, any mix of declared / overriding / deleted functions), an entry `(n, p)` is in
the list iff, in some base-class sub-object or in the class itself, virtual function `n` has a
final overrider of pureness `p`: a function of a base sub-object survives unless the class
re-declares it; a declared function takes part if it is declared virtual or overrides one. -/
theorem c10_vfuncs_spec (c : Cls) (n : Nat) (p : Bool) : (⟨n, p⟩ : VF) ∈ vfuncs c ↔ FinalOv c n p :=
  mem_vfuncs c n p

/-- **Abstract** iff some final overrider is pure — an inherited pure destructor excepted, which
the class's own (possibly implicit) destructor always overrides. Valid for non-virtual
inheritance; see the partial list for shared virtual bases. -/
theorem c10_abstract_spec (c : Cls) :
    isAbstract c = true ↔ ∃ n, FinalOv c n true ∧ (n ≠ dtorId ∨ c.dtor.isSome = true) := by
  unfold isAbstract
  rw [List.any_eq_true]
  constructor
  · rintro ⟨⟨n, p⟩, hm, hc⟩
    simp only [Bool.and_eq_true, Bool.or_eq_true, bne_iff_ne, ne_eq] at hc
    obtain ⟨hp, hd⟩ := hc
    subst hp
    exact ⟨n, (mem_vfuncs c n true).mp hm, hd⟩
  · rintro ⟨n, hf, hd⟩
    refine ⟨⟨n, true⟩, (mem_vfuncs c n true).mpr hf, ?_⟩
    simp only [Bool.and_eq_true, Bool.or_eq_true, bne_iff_ne, ne_eq, true_and]
    exact hd

/-- **Polymorphic** iff the class has a virtual function, own or inherited. -/
theorem c10_polymorphic_spec (c : Cls) : isPolymorphic c = true ↔ ∃ n p, FinalOv c n p := by
  unfold isPolymorphic
  constructor
  · intro h
    cases hv : vfuncs c with
    | nil => simp [hv] at h
    | cons vf rest =>
      refine ⟨vf.id, vf.pure, (mem_vfuncs c vf.id vf.pure).mp ?_⟩
      rw [hv]; simp
  · rintro ⟨n, p, hf⟩
    have := (mem_vfuncs c n p).mpr hf
    cases hv : vfuncs c with
    | nil => rw [hv] at this; simp at this
    | cons _ _ => simp

/-- **Never a constructor for an abstract class**: the public queries that decide whether an
implicit default / copy constructor is exported refuse abstract classes. -/
theorem c10_no_ctor_for_abstract (c : Cls) (h : isAbstract c = true) : isDefault c = false ∧ isCopy c = false := by
  simp [isDefault, isCopy, h]

/-- a user-provided (not defaulted) destructor alone decides destructibility -/
theorem c10_declared_dtor_decides (bases : Bases) (dctor : Option SM) (octor : Bool) (cctor mctor : Option SM) (sm : SM) (ma : Bool)
    (fields : Fields) (vfns : List VDecl) (v : Nat) (hd : sm.defaulted = false) :
    isDestructibleV (.mk bases dctor octor cctor mctor (some sm) ma fields vfns) v = (decide (sm.vis ≤ v) && !sm.deleted) := by
  simp only [isDestructibleV, gate, hd]
  by_cases h1 : sm.vis > v
  · have : ¬ sm.vis ≤ v := by omega
    simp [h1, this]
  · have : sm.vis ≤ v := by omega
    cases hdel : sm.deleted <;> simp [h1, this, hdel]

/-- a deleted default constructor / copy constructor / destructor is never usable, whoever asks -/
theorem c10_deleted_never_constructible (bases : Bases) (octor : Bool) (o1 o2 o3 : Option SM) (sm : SM) (ma : Bool)
    (fields : Fields) (vfns : List VDecl) (v : Nat) (hd : sm.deleted = true) :
    isDefaultV (.mk bases (some sm) octor o1 o2 o3 ma fields vfns) v = false ∧
    isCopyV (.mk bases o1 octor (some sm) o2 o3 ma fields vfns) v = false ∧
    isDestructibleV (.mk bases o1 octor o2 o3 (some sm) ma fields vfns) v = false := by
  refine ⟨?_, ?_, ?_⟩ <;>
  · simp only [isDefaultV, isCopyV, isDestructibleV, gate, hd]
    by_cases h1 : sm.vis > v <;> simp [h1]

/-- **[class.copy.ctor]/6**: a class that declares a move constructor *or a move assignment
operator* and no copy constructor has no usable copy constructor, whoever asks and whatever its
bases and members are -/
theorem c10_move_deletes_copy (bases : Bases) (dctor : Option SM) (octor : Bool) (mctor dtor : Option SM) (ma : Bool)
    (fields : Fields) (vfns : List VDecl) (v : Nat) (h : mctor.isSome = true ∨ ma = true) :
    isCopyV (.mk bases dctor octor none mctor dtor ma fields vfns) v = false := by
  have hc : (mctor.isSome || ma) = true := by
    rcases h with h | h <;> simp [h]
  simp [isCopyV, hc]

/-- without either, the implicit copy constructor is usable exactly when the destructor is and
every base and non-static member can be copied and destroyed -/
theorem c10_implicit_copy (bases : Bases) (dctor : Option SM) (octor : Bool) (dtor : Option SM)
    (fields : Fields) (vfns : List VDecl) (v : Nat) :
    isCopyV (.mk bases dctor octor none none dtor false fields vfns) v = (ownDtorOk dtor v && copyB bases && copyF fields) := by
  simp [isCopyV]

theorem gate_mono (sm : SM) (v v' : Nat) (h : v ≤ v') :
    (gate sm v = .yes → gate sm v' = .yes) ∧ (gate sm v = .implicit → gate sm v' = .implicit) := by
  unfold gate
  by_cases h1 : sm.vis > v
  · simp [h1]
  · have h2 : ¬ sm.vis > v' := by omega
    simp only [h1, h2, if_false]
    exact ⟨fun x => x, fun x => x⟩

/-- **Access is monotone**: what a less privileged context may do, a more privileged one may do as
well — a class destructible / default-constructible / copy-constructible for `min_vis = v` is so
for every `v' ≥ v` (public ⊂ protected ⊂ private access) -/
theorem c10_access_monotone (c : Cls) (v v' : Nat) (h : v ≤ v') :
    (isDestructibleV c v = true → isDestructibleV c v' = true) ∧
    (isDefaultV c v = true → isDefaultV c v' = true) ∧
    (isCopyV c v = true → isCopyV c v' = true) := by
  obtain ⟨bases, dctor, octor, cctor, mctor, dtor, ma, fields, vfns⟩ := c
  refine ⟨?_, ?_, ?_⟩
  · cases dtor with
    | none => simp [isDestructibleV]
    | some sm =>
      have hg := gate_mono sm v v' h
      simp only [isDestructibleV]
      cases hgv : gate sm v with
      | no => simp
      | yes => simp [hg.1 hgv]
      | implicit => simp [hg.2 hgv]
  · cases dctor with
    | none => simp [isDefaultV]
    | some sm =>
      have hg := gate_mono sm v v' h
      simp only [isDefaultV]
      cases hgv : gate sm v with
      | no => simp
      | yes => simp [hg.1 hgv]
      | implicit => simp [hg.2 hgv]
  · have hd : ownDtorOk dtor v = true → ownDtorOk dtor v' = true := by
      cases dtor with
      | none => simp [ownDtorOk]
      | some sm =>
        simp only [ownDtorOk, Bool.and_eq_true, Bool.not_eq_true', decide_eq_false_iff_not]
        intro ⟨h1, h2⟩
        exact ⟨by omega, h2⟩
    cases cctor with
    | none =>
      simp only [isCopyV]
      split
      · simp
      · simp
      · simp only [Bool.and_eq_true]
        intro ⟨⟨h1, h2⟩, h3⟩
        exact ⟨⟨hd h1, h2⟩, h3⟩
    | some sm =>
      have hg := gate_mono sm v v' h
      simp only [isCopyV]
      cases hgv : gate sm v with
      | no => simp
      | yes => simp [hg.1 hgv]
      | implicit =>
        simp only [hg.2 hgv, Bool.and_eq_true]
        intro ⟨⟨h1, h2⟩, h3⟩
        exact ⟨⟨hd h1, h2⟩, h3⟩

/-! ### non-vacuity and regression examples -/

private def noSM : Option SM := none
private def pureF : VDecl := ⟨1, true, true, false⟩
private def plainF : VDecl := ⟨1, false, false, false⟩
/-- `struct A { virtual int f() = 0; };` -/
private def A : Cls := .mk .nil noSM false noSM noSM noSM false .nil [pureF]
/-- `struct B : A { int f(); };` — concrete, and (after the fix) default- and copy-constructible -/
private def B : Cls := .mk (.cons A 0 false .nil) noSM false noSM noSM noSM false .nil [plainF]
example : isAbstract A = true ∧ isAbstract B = false := by decide
example : isDefault B = true ∧ isCopy B = true ∧ isDefault A = false := by decide
/-- `struct P { virtual ~P() = 0; }; struct Q : P {};` — Q is not abstract -/
private def P : Cls := .mk .nil noSM false noSM noSM (some ⟨0, false, false, true, true⟩) false .nil []
private def Q : Cls := .mk (.cons P 0 false .nil) noSM false noSM noSM noSM false .nil []
example : isAbstract P = true ∧ isAbstract Q = false ∧ isPolymorphic Q = true := by decide
/-- `struct E : N { E() = default; };` with `N` not default-constructible: E() is deleted -/
private def N : Cls := .mk .nil noSM true noSM noSM noSM false .nil []
private def E : Cls := .mk (.cons N 0 false .nil) (some ⟨0, false, true, false, false⟩) false noSM noSM noSM false .nil []
example : isDefault N = false ∧ isDefault E = false := by decide
/-- a const member without initializer deletes the implicit default constructor -/
example : isDefault (.mk .nil noSM false noSM noSM noSM false (.cons (.cint false false) .nil) []) = false := by decide
example : isDefault (.mk .nil noSM false noSM noSM noSM false (.cons (.cint true false) .nil) []) = true := by decide
/-- `struct M { M &operator=(M &&); };` is not copy-constructible; `struct H { M m; };` neither -/
private def Mv : Cls := .mk .nil noSM false noSM noSM noSM true .nil []
example : isCopy Mv = false ∧ isDefault Mv = true ∧ isCopy (.mk .nil noSM false noSM noSM noSM false (.cons (.cls Mv false) .nil) []) = false := by decide

end IgVerif.C10
