import IgVerif.Lemmas.Remap
import IgVerif.Schema
/-!
# C11 — the database is referentially closed; wrapper indices are 1..n
-/
namespace IgVerif.C11
open IgVerif

/-- every member whose C++ type is an index type (TypeIndex, FunctionIndex, … or a
vector / sub-record field of one) is passed through `remap.map_from()` by its
class's `remap_indices()` — re-decided on the current headers and bodies -/
def fieldCoverage : Bool :=
  Gen.indexMembers.all fun p => p.2.all fun m => (assocGet Gen.remapMembers p.1).contains m.1

theorem c11_field_coverage : fieldCoverage = true := by decide

/-- the translator found index members for all six kinds -/
theorem c11_index_members_found : Gen.indexMembers.map (fun p => (p.1, p.2.length != 0)) =
    [("function", true), ("wrapper", true), ("type", true), ("manifest", true), ("element", true), ("makeSeq", true)] := by
  decide

/-- **Wrappers first.** After `remap_indices(first)` the wrapper indices are exactly
`first, first+1, …, first+n-1` (the builder calls it with `first = 1`). -/
theorem c11_wrappers_first (sch : Schema) (rc : RemapCfg) (db : Db) (first : Int) :
    (db.remapIndices sch rc first).1.wrappers.map (·.1) = consec first db.wrappers.length ∧
    consecutiveFrom first ((db.remapIndices sch rc first).1.wrappers.map (·.1)) = true := by
  have h := remapIndices_wrappers sch rc db first
  exact ⟨h, by rw [h]; exact consecutiveFrom_consec _ _⟩

/-- the other kinds follow consecutively (functions, types, manifests, elements,
sequences) and the returned next index is `first` plus the number of entries -/
theorem c11_ranges (sch : Schema) (rc : RemapCfg) (db : Db) (first : Int) :
    let r := (db.remapIndices sch rc first).1
    r.functions.map (·.1) = consec (first + db.wrappers.length) db.functions.length ∧
    r.types.map (·.1) = consec (first + db.wrappers.length + db.functions.length) db.types.length ∧
    r.nextIndex = first + db.wrappers.length + db.functions.length + db.types.length +
      db.manifests.length + db.elements.length + db.makeSeqs.length := by
  exact remapIndices_ranges sch rc db first

/-- records keep their content order: the k-th wrapper stays the k-th wrapper -/
theorem c11_order_preserved (sch : Schema) (rc : RemapCfg) (db : Db) (first : Int) :
    (db.remapIndices sch rc first).1.wrappers.length = db.wrappers.length := by
  have := (c11_wrappers_first sch rc db first).1
  have h2 := congrArg List.length this
  simp at h2
  rw [h2]
  clear this h2
  induction db.wrappers.length generalizing first with
  | zero => rfl
  | succ k ih => simp [consec, ih]

example : consecutiveFrom 1 [1, 2, 3] = true ∧ consecutiveFrom 1 [1, 3] = false := by decide

end IgVerif.C11
