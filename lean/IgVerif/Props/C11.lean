import IgVerif.Lemmas.Remap
import IgVerif.Lemmas.ClosedRemap
import IgVerif.Schema
/-!
# C11 — the database is referentially closed; wrapper indices are 1..n
-/
namespace IgVerif.C11
open IgVerif

/-- every member whose C++ type is an index type (TypeIndex, FunctionIndex, … or a
vector / sub-record field of one) is passed through `remap.map_from()` by its
class's `remap_indices()` — re-decided on the current headers and bodies -/
def fieldCoverage : Bool :=
  Gen.indexMembers.all fun p => p.2.all fun m => (assocGet Gen.remapMembers p.1).contains m.1

theorem c11_field_coverage : fieldCoverage = true := by decide

/-- the translator found index members for all six kinds -/
theorem c11_index_members_found : Gen.indexMembers.map (fun p => (p.1, p.2.length != 0)) =
    [("function", true), ("wrapper", true), ("type", true), ("manifest", true), ("element", true), ("makeSeq", true)] := by
  decide

/-- **Wrappers first.** After `remap_indices(first)` the wrapper indices are exactly
`first, first+1, …, first+n-1` (the builder calls it with `first = 1`). -/
theorem c11_wrappers_first (sch : Schema) (rc : RemapCfg) (db : Db) (first : Int) :
    (db.remapIndices sch rc first).1.wrappers.map (·.1) = consec first db.wrappers.length ∧
    consecutiveFrom first ((db.remapIndices sch rc first).1.wrappers.map (·.1)) = true := by
  have h := remapIndices_wrappers sch rc db first
  exact ⟨h, by rw [h]; exact consecutiveFrom_consec _ _⟩

/-- the other kinds follow consecutively (functions, types, manifests, elements,
sequences) and the returned next index is `first` plus the number of entries -/
theorem c11_ranges (sch : Schema) (rc : RemapCfg) (db : Db) (first : Int) :
    let r := (db.remapIndices sch rc first).1
    r.functions.map (·.1) = consec (first + db.wrappers.length) db.functions.length ∧
    r.types.map (·.1) = consec (first + db.wrappers.length + db.functions.length) db.types.length ∧
    r.nextIndex = first + db.wrappers.length + db.functions.length + db.types.length +
      db.manifests.length + db.elements.length + db.makeSeqs.length := by
  exact remapIndices_ranges sch rc db first

/-- records keep their content order: the k-th wrapper stays the k-th wrapper -/
theorem c11_order_preserved (sch : Schema) (rc : RemapCfg) (db : Db) (first : Int) :
    (db.remapIndices sch rc first).1.wrappers.length = db.wrappers.length := by
  have := (c11_wrappers_first sch rc db first).1
  have h2 := congrArg List.length this
  simp at h2
  rw [h2]
  clear this h2
  induction db.wrappers.length generalizing first with
  | zero => rfl
  | succ k ih => simp [consec, ih]

/-- per kind, every index-typed member the translator found in the headers is among the members
that kind's `remap_indices()` passes through the remapper (both lists regenerated on every run) -/
theorem c11_covers (k : Kind) : Covers (IndexCfg.of Gen.indexMembers k) (RemapCfg.of Gen.remapMembers k) := by
  apply covers_of_all
  cases k <;> decide

/-- **Closure is preserved.** A referentially closed database — every stored index is 0 ("none")
or names an existing entry of the expected kind, and the global/all enumerations list existing
entries — is still closed after `remap_indices(first)`, for every `first`: the builder's final
renumbering and the renumbering on load cannot create a dangling reference.  Hypotheses: no index
is used by entries of two kinds and 0 is not an index (true of every database `remap_indices`
itself produced with `first ≥ 1`: `c11_ranges`). -/
theorem c11_closed_preserved (db : Db) (first : Int)
    (hd : db.kindsDisjointB = true) (h0 : ∀ k, (0 : Int) ∉ (db.map k).map (·.1))
    (hcl : db.closedB schema Gen.indexMembers = true) :
    (db.remapIndices schema Gen.remapMembers first).1.closedB schema Gen.indexMembers = true :=
  closed_remap schema Gen.indexMembers Gen.remapMembers db first c11_covers hd h0 hcl

/-- the hypotheses are satisfiable by a database with a live cross reference (wrapper 5 → function 7),
and the conclusion is not trivial: the reference is carried to the function's new index -/
def exDb : Db :=
  { wrappers := [(5, setVal schema.wrapper (defaultRec schema.wrapper) "_function" (.a (.int 7)))],
    functions := [(7, defaultRec schema.function)], allFunctions := [7] }

example : exDb.kindsDisjointB = true ∧ exDb.closedB schema Gen.indexMembers = true ∧
    (exDb.remapIndices schema Gen.remapMembers 1).1.allFunctions = [2] ∧
    ((exDb.remapIndices schema Gen.remapMembers 1).1.wrappers.map
      fun p => (p.1, getInt schema.wrapper p.2 "_function")) = [(1, 2)] := by decide

example : consecutiveFrom 1 [1, 2, 3] = true ∧ consecutiveFrom 1 [1, 3] = false := by decide

end IgVerif.C11
