import IgVerif.Lemmas.CType
import IgVerif.Model.Scope
/-!
# C06 — every printed type is the type that was written
-/
namespace IgVerif.C06
open IgVerif.CT IgVerif.Sc

/-- **Printed text denotes the type.** For every type of the supported shapes — any nesting of
pointers, references, arrays, functions (with any parameter lists), `const` on names and
pointers — and every name, the tokens `output_instance` prints are derived by the C++
declarator grammar as a declaration of exactly that name with exactly that type. -/
theorem c06_print_denotes (t : CType) (h : WF t = true) (n : Option String) :
    DeclG (oi t [] (nameToks n)) t n := by
  have := oi_denotes t h [] (nameToks n) (.name n) (.name n) (NoPtrD.id n) PreOps.nil
  simpa [denote, declName] using this

/-- **`unroll_type` is the ISO meaning of the declarator**, whatever redundant parentheses were
written: the modifier list pushed by the grammar, unrolled over the base type, is
`denote` of the declarator. -/
theorem c06_unroll (cd : CDecl) (b : CType) : unroll (mods cd) b = denote (erase cd) b :=
  unroll_mods cd b

/-- **Parse then print.** A declaration `b cd` is stored as `unroll (mods cd) b` and printed
as text that derives `denote (erase cd) b`: the type that was written. -/
theorem c06_parse_print (cd : CDecl) (b : CType) (h : WF (unroll (mods cd) b) = true) (n : Option String) :
    DeclG (oi (unroll (mods cd) b) [] (nameToks n)) (denote (erase cd) b) n := by
  rw [← c06_unroll]
  exact c06_print_denotes _ h n

/-- the parameter list printed for a function type derives its parameter types in order -/
theorem c06_params (ps : CParams) (h : WFs ps = true) (v : Bool) : ParamsG (oparams ps v) ps v :=
  oparams_denotes ps h v

/-! ### lookup -/

/-- **Innermost wins.** If the innermost scope (with its bases and using-directives)
contributes the name, that entity is the answer whatever the outer scopes declare. -/
theorem c06_lookup_innermost (s : Scope) (outer : List Scope) (n : String) (e : Nat)
    (h : findLocal s n = some e) : findType (s :: outer) n = some e := by
  simp [findType, h]

/-- **Skip.** A scope that does not contribute the name is transparent. -/
theorem c06_lookup_skip (s : Scope) (outer : List Scope) (n : String)
    (h : findLocal s n = none) : findType (s :: outer) n = findType outer n := by
  simp [findType, h]

/-- **Own declarations shadow bases and using-directives.** -/
theorem c06_lookup_own (types : List (String × Nat)) (us bs : List Scope) (n : String) (e : Nat)
    (h : lookupAssoc types n = some e) : findLocal (.mk types us bs) n = some e := by
  simp [findLocal, h]

/-- the answer is always an entity declared in one of the scopes of the chain (or reachable
from one through bases / using-directives): nothing is invented -/
theorem c06_lookup_sound (chain : List Scope) (n : String) (e : Nat) (h : findType chain n = some e) :
    ∃ s ∈ chain, findLocal s n = some e := by
  induction chain with
  | nil => simp [findType] at h
  | cons s outer ih =>
    simp only [findType] at h
    cases hs : findLocal s n with
    | some e' =>
      rw [hs] at h
      exact ⟨s, by simp, by simpa [hs] using h⟩
    | none =>
      rw [hs] at h
      obtain ⟨s', hm, hf⟩ := ih h
      exact ⟨s', by simp [hm], hf⟩

/-! ### non-vacuity and regression examples (evaluated by the kernel) -/

private def int := CType.base "int"
-- pointer to array, reference to array, function returning pointer to array
example : oi (.ptr (.arr int (some 3))) [] [Tok.ident "p"]
    = [Tok.ident "int", .lp, .star, .ident "p", .rp, .lb, .num 3, .rb] := by decide
example : oi (.arr (.ptr int) (some 3)) [] [Tok.ident "p"]
    = [Tok.ident "int", .star, .ident "p", .lb, .num 3, .rb] := by decide
example : oi (.fn (.ptr (.arr int (some 4))) (.cons int (some "a") .nil) false) [] [Tok.ident "f"]
    = [Tok.ident "int", .lp, .star, .ident "f", .lp, .ident "int", .ident "a", .rp, .rp, .lb, .num 4, .rb] := by decide
example : oi (.ptr (.fn int .nil false)) [] [] = [Tok.ident "int", .lp, .star, .rp, .lp, .ident "void", .rp] := by decide
example : WF (.const (.ptr (.ptr (.const int)))) = true := by decide
example : oi (.const (.ptr (.ptr (.const int)))) [] [Tok.ident "q"]
    = [Tok.ident "int", .kconst, .star, .star, .kconst, .ident "q"] := by decide
-- `int (*const (*q[2]))[3]` written with redundant parentheses
example : (unroll (mods (.paren (.ptr false (.arr (.name (some "q")) (some 2))))) int).beq (.arr (.ptr int) (some 2)) = true := by decide

-- shadowing: Handle declared in app (nearer) and in core (encloses only the base)
private def coreObject : Scope := .mk [] [] []
private def widget : Scope := .mk [("IdPtr", 7)] [] [coreObject]
private def app : Scope := .mk [("Handle", 1), ("Id", 2)] [] []
private def globalScope : Scope := .mk [("Handle", 99)] [] []
example : findType [widget, app, globalScope] "Handle" = some 1 := by decide

end IgVerif.C06
