import IgVerif.Lemmas.Expr
import IgVerif.Gen.C07Tables
import IgVerif.Lemmas.Literal
import IgVerif.Lemmas.EnumVal
import IgVerif.Lemmas.CharLit
/-!
# C07 — recorded constants equal the values the C++ compiler computes
-/
namespace IgVerif.C07
open IgVerif.Ex

/-- **Evaluator = C++ within `int`.** For every integer constant expression to
which C++ assigns a value with all operands and results inside `int` (arithmetic,
bitwise, shift, comparison, logical with short-circuit, conditional, casts,
comma), interrogate's evaluator returns exactly that value. -/
theorem c07_eval (e : Expr) (v : Int) (h : cxxEval e = some v) : evaluate e = .int v :=
  evaluate_eq_cxxEval e v h

/-- **Never a wrong number**: when C++ assigns a value, interrogate's answer is
that value or nothing — it cannot be a different integer. -/
theorem c07_never_wrong (e : Expr) (v w : Int) (hc : cxxEval e = some v) (hi : evaluate e = .int w) : w = v := by
  rw [c07_eval e v hc] at hi
  injection hi with h; exact h.symm

/-- an identifier interrogate cannot evaluate makes the whole expression
unevaluated — except where C++ itself would not look at it (`1 || x`, `0 && x`,
the untaken branch of `?:`) -/
theorem c07_unknown_is_unevaluated : evaluate .unknown = .error ∧
    evaluate (.bin .add (.int 1) .unknown) = .error ∧ evaluate (.un .minus .unknown) = .error ∧
    evaluate (.cast .int .unknown) = .error := by decide

/-- the values the C++ side is defined on are within `int` -/
theorem c07_spec_in_range (e : Expr) (v : Int) (h : cxxEval e = some v) : inInt v = true :=
  cxxEval_inInt e v h

/-! ## facts re-read from the source on every run -/

theorem c07_extraction_ok : Gen.c07ExtractionFailed = false := by decide

/-- operator precedence and associativity declared to bison are those of C++
(lowest first: ?: right; || ; && ; | ; ^ ; & ; == != ; <= >= < > ; <=> ; << >> ; + - ; * / %) -/
theorem c07_precedence : Gen.precTable =
    [("right", ["'?'"]), ("left", ["OROR"]), ("left", ["ANDAND"]), ("left", ["'|'"]), ("left", ["'^'"]), ("left", ["'&'"]),
     ("left", ["EQCOMPARE", "NECOMPARE"]), ("left", ["LECOMPARE", "GECOMPARE", "'<'", "'>'"]), ("left", ["SPACESHIP"]),
     ("left", ["LSHIFT", "RSHIFT"]), ("left", ["'+'", "'-'"]), ("left", ["'*'", "'/'", "'%'"])] := by decide

def binOps : List String := ["'*'", "'/'", "'%'", "'+'", "'-'", "'|'", "'^'", "'&'", "OROR", "ANDAND", "EQCOMPARE", "NECOMPARE",
  "LECOMPARE", "GECOMPARE", "SPACESHIP", "'<'", "'>'", "LSHIFT", "RSHIFT", "'?'"]

/-- in each of the three copies of the expression grammar every operator token
builds the CPPExpression of that same operator, and every operator has a production -/
def prodsOk : Bool :=
  ["const_expr", "no_angle_bracket_const_expr", "formal_const_expr"].all fun nt =>
    binOps.all fun op =>
      -- the no-angle-bracket copy deliberately lacks `<` and `>` (it parses template arguments)
      (nt == "no_angle_bracket_const_expr" && (op == "'<'" || op == "'>'")) ||
      Gen.prodTable.any fun p => p.1 == nt && p.2.2.1 == op && p.2.2.2.2 == op
def prodsConsistent : Bool :=
  Gen.prodTable.all fun p =>
    ["unary'!'", "unary'~'", "unary'-'", "unary'+'", "unary'*'", "unary'&'"].contains p.2.2.1 || p.2.2.1 == p.2.2.2.2

theorem c07_productions : prodsOk = true ∧ prodsConsistent = true := by decide +kernel

def unaryOk : Bool :=
  ["const_expr", "no_angle_bracket_const_expr", "formal_const_expr"].all fun nt =>
    [("unary'!'", "UNARY_NOT"), ("unary'~'", "UNARY_NEGATE"), ("unary'-'", "UNARY_MINUS"), ("unary'+'", "UNARY_PLUS")].all fun u =>
      Gen.prodTable.any fun p => p.1 == nt && p.2.2.1 == u.1 && p.2.2.2.2 == u.2

theorem c07_unary_productions : unaryOk = true := by decide

/-- the integer branch of every case of the operator switch in `evaluate()` is the
code the model `binInt` / `evaluate` was written from:
(case label, FNV-1a-64 of the integer-branch code, the code as reviewed) -/
def expectedEval : List (String × Nat × String) := [
  ("UNARY_NOT", 11252535431284683672, "return Result(!r1.as_boolean());"),
  ("UNARY_NEGATE", 17909733182605280397, "return Result(~r1.as_integer());"),
  ("UNARY_MINUS", 12084813241707153501, "return (r1._type == RT_real) ? Result(-r1.as_real()) : Result(-r1.as_integer());"),
  ("UNARY_PLUS", 9656397246608576829, "return r1;"),
  ("'*'", 13115472184048524793, "return Result(r1.as_integer() * r2.as_integer());"),
  ("'/'", 10750980013895829603, "if (r2.as_integer() == 0 || (r1.as_integer() == INT_MIN && r2.as_integer() == -1)) { return Result(); } return Result(r1.as_integer() / r2.as_integer());"),
  ("'%'", 3571153756339543821, "if (r2.as_integer() == 0 || (r1.as_integer() == INT_MIN && r2.as_integer() == -1)) { return Result(); } return Result(r1.as_integer() % r2.as_integer());"),
  ("'+'", 10346605990935539566, "return Result(r1.as_integer() + r2.as_integer());"),
  ("'-'", 13968582568693601192, "return Result(r1.as_integer() - r2.as_integer());"),
  ("'|'", 2948373945770552971, "return Result(r1.as_integer() | r2.as_integer());"),
  ("'^'", 15607128127634404541, "return Result(r1.as_integer() ^ r2.as_integer());"),
  ("'&'", 8098895609521250837, "return Result(r1.as_integer() & r2.as_integer());"),
  ("OROR", 11039011874573077196, "if (r1.as_boolean()) { return Result(1); } else if (r2._type == RT_error) { return r2; } else { return Result((int)r2.as_boolean()); }"),
  ("ANDAND", 2052295261645961952, "if (!r1.as_boolean()) { return Result(0); } else if (r2._type == RT_error) { return r2; } else { return Result((int)r2.as_boolean()); }"),
  ("EQCOMPARE", 6720558649332718439, "return Result(r1.as_integer() == r2.as_integer());"),
  ("NECOMPARE", 3677288408307288779, "return Result(r1.as_integer() != r2.as_integer());"),
  ("LECOMPARE", 4217439656600881022, "return Result(r1.as_integer() <= r2.as_integer());"),
  ("GECOMPARE", 2835447788020915772, "return Result(r1.as_integer() >= r2.as_integer());"),
  ("'<'", 16744441810732581067, "return Result(r1.as_integer() < r2.as_integer());"),
  ("'>'", 6084875908436553629, "return Result(r1.as_integer() > r2.as_integer());"),
  ("LSHIFT", 13742732301376669257, "return Result(r1.as_integer() << r2.as_integer());"),
  ("RSHIFT", 2763406519713796529, "return Result(r1.as_integer() >> r2.as_integer());"),
  ("'?'", 14672500576252486589, "return r1.as_integer() ? _u._op._op2->evaluate() : _u._op._op3->evaluate();"),
  ("','", 9659352733864640322, "return r2;")]

def evalMirror : Bool :=
  expectedEval.all fun p => (Gen.evalTable.find? fun q => q.1 == p.1).map (·.2.2) == some p.2.1

theorem c07_eval_mirror : evalMirror = true := by decide
/-! ## non-vacuity -/

example : cxxEval (.bin .add (.bin .mul (.int 6) (.int 7)) (.un .minus (.int 2))) = some 40 := by decide
example : cxxEval (.bin .lor (.int 5) .unknown) = some 1 := by decide
example : cxxEval (.bin .bxor (.int 5) (.int 3)) = some 6 := by decide
example : cxxEval (.cast .short (.int 70000)) = some 4464 := by decide
example : cxxEval (.bin .div (.int 1) (.int 0)) = none ∧ evaluate (.bin .div (.int 1) (.int 0)) = .error := by decide
example : cxxEval (.bin .add (.int 2147483647) (.int 1)) = none := by decide

/-! ## integer literals (`get_number`) -/
open IgVerif.Lit in
/-- **Literal lexing.** A decimal, hexadecimal or binary literal — digits of the base with C++14
digit separators anywhere between them, followed by something that neither continues the digit
sequence nor is a separator — is recorded with the positional value of its digits, and exactly the
literal is consumed. -/
theorem c07_literal (d : Nat) (ds : List Nat) (bs : List Bool) (rest : List Nat) :
    ((∀ x ∈ d :: ds, isDec x = true) → d ≠ 48 → Stop isDec rest →
      getNumber (withSeps (d :: ds) bs ++ rest) = some (strtol 10 (d :: ds), .dec, rest)) ∧
    (∀ x, (x = 120 ∨ x = 88) → (∀ y ∈ d :: ds, isHex y = true) → Stop isHex rest →
      getNumber (48 :: x :: (withSeps (d :: ds) bs ++ rest)) = some (strtol 16 (d :: ds), .hex, rest)) ∧
    (∀ x, (x = 98 ∨ x = 66) → (∀ y ∈ d :: ds, isBin y = true) → Stop isBin rest →
      getNumber (48 :: x :: (withSeps (d :: ds) bs ++ rest)) = some (strtol 2 (d :: ds), .bin, rest)) :=
  ⟨fun h1 h2 h3 => getNumber_dec d ds bs rest h1 h2 h3, fun x hx h1 h2 => getNumber_hex x hx d ds bs rest h1 h2,
   fun x hx h1 h2 => getNumber_bin x hx d ds bs rest h1 h2⟩

open IgVerif.Lit in
/-- the positional value: appending a digit multiplies by the base and adds the digit -/
theorem c07_strtol_snoc (base : Nat) (ds : List Nat) (d : Nat) : strtol base (ds ++ [d]) = strtol base ds * base + digitVal d := by
  simp [strtol, List.foldl_append]

-- 0b11 is 3 (it used to be recorded as 7), 0xFF'FF is 65535, 1'000 is 1000, 017 is 15
example : Lit.getNumber [48, 98, 49, 49, 59] = some (3, .bin, [59]) := by decide
example : Lit.getNumber [48, 120, 70, 70, 39, 70, 70, 44] = some (65535, .hex, [44]) := by decide
example : Lit.getNumber [49, 39, 48, 48, 48, 32] = some (1000, .dec, [32]) := by decide
example : Lit.getNumber [48, 49, 55, 59] = some (15, .oct, [59]) := by decide

open IgVerif.EnumVal in
/-- **Implicit enumerator values** ([dcl.enum]/2). Whatever mixture of written and omitted
initialisers an enum has — literals, names of other constants, sums — the expressions
`add_element` builds for its enumerators evaluate to: the written value where one is
written, 0 for a first enumerator without one, the previous value plus one otherwise.
(Values are mathematical integers here: the code adds 1 in 64-bit arithmetic.) -/
theorem c07_enum_increment (ρ : Nat → Int) (gs : List (Option EnumVal.Ex)) :
    (elements none gs).map (EnumVal.Ex.eval ρ) = spec ρ none gs :=
  elements_spec ρ none gs

open IgVerif.EnumVal in
-- enum { a, b = K + 2, c, d, e = 7, f }  with K = 10
example : (elements none [none, some (.add (.sym 0) (.lit 2)), none, none, some (.lit 7), none]).map (EnumVal.Ex.eval (fun _ => 10)) =
    [0, 12, 13, 14, 7, 8] := by decide

/-! ## character literals -/
open IgVerif.Chr IgVerif.Lit in
/-- **An ordinary character** denotes its code (`char` is signed: codes above 127 are negative,
as for the C++ compiler on this platform). -/
theorem c07_char_plain (c : Nat) (rest : List Nat) (h1 : c ≠ 10) (h2 : c ≠ 39) (h3 : c ≠ 92) :
    charValue (c :: rest) = toSigned c :=
  charValue_plain c rest h1 h2 h3

open IgVerif.Chr in
/-- **Simple escapes**: the whole table of [lex.ccon] (`\a \b \f \n \r \t \v \\ \' \" \?`) and GCC's `\e`. -/
theorem c07_char_simple_escapes :
    [(97, 7), (98, 8), (102, 12), (110, 10), (114, 13), (116, 9), (118, 11), (92, 92), (39, 39), (34, 34), (63, 63), (101, 27)].all
      (fun p => charValue [92, p.1, 39] == (p.2 : Int)) = true := by decide

open IgVerif.Chr in
/-- **Octal escapes** of one, two or three digits (the literal's closing quote, or any other
non-octal character, ends them): the value is the number the digits spell, as a `char`. -/
theorem c07_char_octal (a b c x : Nat) (rest : List Nat) (ha : isOct a = true) (hb : isOct b = true) (hc : isOct c = true)
    (hx : isOct x = false) :
    charValue (92 :: a :: b :: c :: rest) = toSigned ((((a - 48) * 8 + (b - 48)) * 8 + (c - 48)) % 256) ∧
    charValue (92 :: a :: b :: x :: rest) = toSigned (((a - 48) * 8 + (b - 48)) % 256) ∧
    charValue (92 :: a :: x :: rest) = toSigned ((a - 48) % 256) := by
  rw [charValue_escape, charValue_escape, charValue_escape, scanEscape_oct3 a b c rest ha hb hc,
    scanEscape_oct2 a b x rest ha hb hx, scanEscape_oct1 a x rest ha hx]
  exact ⟨rfl, rfl, rfl⟩

open IgVerif.Chr IgVerif.Lit in
/-- **Hexadecimal escapes** read every hex digit that follows, as C++ does; the value is the
number they spell, as a `char`. -/
theorem c07_char_hex (h1 : Nat) (ds : List Nat) (x : Nat) (rest : List Nat) (e1 : isHex h1 = true)
    (eds : ∀ d ∈ ds, isHex d = true) (ex : isHex x = false) :
    charValue (92 :: 120 :: h1 :: (ds ++ x :: rest)) = toSigned (strtol 16 (h1 :: ds) % 256) := by
  rw [charValue_escape, scanEscape_hex h1 ds x rest e1 eds ex]

-- 'A' = 65, '\n' = 10, '\101' = 65, '\x41' = 65, '\xff' = -1, '\0' = 0, '\377' = -1
example : [Chr.charValue [65, 39], Chr.charValue [92, 110, 39], Chr.charValue [92, 49, 48, 49, 39], Chr.charValue [92, 120, 52, 49, 39],
    Chr.charValue [92, 120, 102, 102, 39], Chr.charValue [92, 48, 39], Chr.charValue [92, 51, 55, 55, 39],
    Chr.charValue [92, 120, 48, 52, 49, 39]] = [65, 10, 65, 65, -1, 0, -1, 65] := by decide

end IgVerif.C07
