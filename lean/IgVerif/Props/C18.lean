import IgVerif.Model.Float
import IgVerif.Gen.C18Powers
/-!
# C18 — floating-point literals keep their value
-/
namespace IgVerif.C18
open IgVerif.Fl

theorem c18_extraction_ok : Gen.c18ExtractionFailed = false := by decide

/-- entry `(f, e)` for decimal exponent `k`: `f·2^e` is `10^k` rounded to 64 bits
(`|f·2^e − 10^k| ≤ 2^e / 2`, in integers) and `f` is normalised (top bit set) -/
def powerOk (f : Nat) (e k : Int) : Bool :=
  decide (2 ^ 63 ≤ f) && decide (f < 2 ^ 64) &&
  (if k ≥ 0 then
     if e ≥ 0 then
       let a := f * 2 ^ e.toNat
       let b := 10 ^ k.toNat
       decide (2 * (if a ≥ b then a - b else b - a) ≤ 2 ^ e.toNat)
     else
       let b := 10 ^ k.toNat * 2 ^ (-e).toNat
       decide (2 * (if f ≥ b then f - b else b - f) ≤ 1)
   else
     -- k < 0 (then e < 0):  |f·10^-k − 2^-e| · 2 ≤ 10^-k
     let a := f * 10 ^ (-k).toNat
     let b := 2 ^ (-e).toNat
     decide (2 * (if a ≥ b then a - b else b - a) ≤ 10 ^ (-k).toNat))

def powersOk : Bool :=
  (List.range Gen.cachedPowers.length).all fun i =>
    match Gen.cachedPowers[i]? with
    | some (f, e) => powerOk f e (Gen.powerBase + 8 * (i : Int))
    | none => false

/-- **The cached power table is right**: all 87 entries are the correctly rounded
64-bit significands of 10^-348, 10^-340, …, 10^340 (re-checked by the kernel on
the table as it stands in pdtoa.cxx) -/
theorem c18_cached_powers : powersOk = true ∧ Gen.cachedPowers.length = 87 := by decide +kernel

/-- the exponent writer: for every |K| < 1000 the digits written read back as |K|, with a `-` iff K < 0 -/
def expOk (K : Int) : Bool :=
  let cs := writeExponent K
  let (neg, ds) : Bool × List Char := match cs with
    | '-' :: r => (true, r)
    | r => (false, r)
  let (v, rest) := takeDigits ds
  rest.isEmpty && digitsVal v == K.natAbs && neg == decide (K < 0) && !v.isEmpty

theorem c18_write_exponent : ((List.range 1999).all fun i => expOk ((i : Int) - 999)) = true := by decide +kernel

/-! ## executable facts (tests by evaluation, labelled as such) -/

-- 0.3 = 0x3FD3333333333333 is printed as "0.3" and "0.3" parses back to the same bits
example : pdtoa Gen.cachedPowers 0x3FD3333333333333 = "0.3".toList := by decide +kernel
example : pstrtod "0.3".toList = some 0x3FD3333333333333 := by decide +kernel
example : pstrtod "1e23".toList = some 0x44B52D02C7E14AF6 := by decide +kernel
example : pstrtod "2.2250738585072014e-308".toList = some 0x0010000000000000 := by decide +kernel
example : pdtoa Gen.cachedPowers 0x44B52D02C7E14AF6 = "1e23".toList ∨ pdtoa Gen.cachedPowers 0x44B52D02C7E14AF6 = "9.999999999999999e22".toList := by
  decide +kernel

end IgVerif.C18
