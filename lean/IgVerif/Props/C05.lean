import IgVerif.Model.Comments
/-!
# C05 — a documentation comment is attached to the declaration it immediately precedes and to no other
-/
namespace IgVerif.C05
open IgVerif.Cm

theorem findIdx_spec : ∀ (cs : List Comment) (line k i : Nat), findIdx cs line k = some i →
    ∃ j x, i = k + j ∧ cs[j]? = some x ∧ adjacent x line = true ∧ (x.attached = 0 ∨ x.attached = line) := by
  intro cs
  induction cs with
  | nil => intro line k i h; simp [findIdx] at h
  | cons c rest ih =>
    intro line k i h
    simp only [findIdx] at h
    by_cases hadj : adjacent c line = true
    · simp only [hadj, if_true] at h
      by_cases hc : (c.attached != 0 && c.attached != line) = true
      · simp [hc] at h
      · simp only [hc, Bool.false_eq_true, if_false, Option.some.injEq] at h
        refine ⟨0, c, by omega, by simp, hadj, ?_⟩
        simp only [Bool.and_eq_true, bne_iff_ne, ne_eq, not_and, Decidable.not_not] at hc
        by_cases h0 : c.attached = 0
        · exact Or.inl h0
        · exact Or.inr (hc h0)
    · simp only [hadj, Bool.false_eq_true, if_false] at h
      by_cases hlt : c.last < line
      · simp [hlt] at h
      · simp only [hlt, if_false] at h
        obtain ⟨j, x, hi, hx, ha, hat⟩ := ih line (k + 1) i h
        exact ⟨j + 1, x, by omega, by simpa using hx, ha, hat⟩

theorem attach_get : ∀ (cs : List Comment) (i line j : Nat),
    (attach cs i line)[j]? = if j = i then (cs[i]?).map (fun c => { c with attached := line }) else cs[j]? := by
  intro cs
  induction cs with
  | nil => intro i line j; simp [attach]
  | cons c rest ih =>
    intro i line j
    cases i with
    | zero =>
      cases j with
      | zero => simp [attach]
      | succ j => simp [attach]
    | succ i =>
      cases j with
      | zero => simp [attach]
      | succ j => simp [attach, ih i line j]

/-- **Immediately precedes.** The comment handed out for a declaration ends on the declaration's
line or on the line before it. -/
theorem c05_comment_adjacent (cs : List Comment) (line i : Nat) (h : (claim cs line).2 = some i) :
    ∃ x, cs[i]? = some x ∧ (x.last = line ∨ x.last + 1 = line) := by
  unfold claim at h
  cases hf : findIdx cs line 0 with
  | none => simp [hf] at h
  | some i' =>
    simp only [hf, Option.some.injEq] at h
    subst h
    obtain ⟨j, x, hi, hx, ha, _⟩ := findIdx_spec cs line 0 i' hf
    have : i' = j := by omega
    subst this
    refine ⟨x, hx, ?_⟩
    simpa [adjacent] using ha

/-- the invariant of a run: every `(line, comment)` pair logged so far is still recorded in the
state (`attached = line`) -/
def Recorded (cs : List Comment) (log : List (Nat × Option Nat)) : Prop :=
  ∀ l i, (l, some i) ∈ log → ∃ x, cs[i]? = some x ∧ x.attached = l

theorem claim_preserves (cs : List Comment) (line : Nat) (hl : line ≠ 0) (i l : Nat) (x : Comment)
    (hx : cs[i]? = some x) (hat : x.attached = l) (hl0 : l ≠ 0) :
    ∃ y, (claim cs line).1[i]? = some y ∧ y.attached = l := by
  unfold claim
  cases hf : findIdx cs line 0 with
  | none => exact ⟨x, by simpa using hx, hat⟩
  | some i' =>
    simp only
    rw [attach_get]
    by_cases hii : i = i'
    · subst hii
      obtain ⟨j, z, hi, hz, _, hzat⟩ := findIdx_spec cs line 0 i hf
      have : i = j := by omega
      subst this
      rw [hx] at hz
      have hxz : x = z := by simpa using hz
      subst hxz
      simp only [if_true, hx, Option.map_some]
      refine ⟨_, rfl, ?_⟩
      rcases hzat with h0 | h1
      · rw [hat] at h0; exact absurd h0 hl0
      · simp only; rw [← h1, hat]
    · simp only [hii, if_false]
      exact ⟨x, hx, hat⟩

theorem claim_records (cs : List Comment) (line i : Nat) (h : (claim cs line).2 = some i) :
    ∃ y, (claim cs line).1[i]? = some y ∧ y.attached = line := by
  unfold claim at h ⊢
  cases hf : findIdx cs line 0 with
  | none => simp [hf] at h
  | some i' =>
    simp only [hf, Option.some.injEq] at h
    subst h
    simp only
    rw [attach_get]
    obtain ⟨j, z, hi, hz, _, _⟩ := findIdx_spec cs line 0 i' hf
    have : i' = j := by omega
    subst this
    simp [hz]

/-- **… and to no other.** Whatever the comments and whatever declarations claim them, in
whatever order: if the same comment is handed out twice, it is for the same declaration line. -/
theorem c05_comment_once : ∀ (lines : List Nat) (cs : List Comment), (∀ l ∈ lines, l ≠ 0) →
    ∀ (pre : List (Nat × Option Nat)), Recorded cs pre → (∀ l i, (l, some i) ∈ pre → l ≠ 0) →
      ∀ l1 l2 i, (l1, some i) ∈ pre ++ claimAll cs lines → (l2, some i) ∈ pre ++ claimAll cs lines → l1 = l2 := by
  intro lines
  induction lines with
  | nil =>
    intro cs _ pre hrec _ l1 l2 i h1 h2
    simp only [claimAll, List.append_nil] at h1 h2
    obtain ⟨x, hx, hxa⟩ := hrec l1 i h1
    obtain ⟨y, hy, hya⟩ := hrec l2 i h2
    rw [hx] at hy
    have : x = y := by simpa using hy
    subst this
    rw [← hxa, ← hya]
  | cons l ls ih =>
    intro cs hnz pre hrec hpre l1 l2 i h1 h2
    have hl : l ≠ 0 := hnz l (by simp)
    -- move the new log entry into the prefix and use the induction hypothesis on the new state
    have hrec' : Recorded (claim cs l).1 (pre ++ [(l, (claim cs l).2)]) := by
      intro l' i' hmem
      simp only [List.mem_append, List.mem_singleton, Prod.mk.injEq] at hmem
      rcases hmem with hmem | ⟨rfl, hres⟩
      · obtain ⟨x, hx, hxa⟩ := hrec l' i' hmem
        exact claim_preserves cs l hl i' l' x hx hxa (hpre l' i' hmem)
      · exact claim_records cs l' i' hres.symm
    have hpre' : ∀ l' i', (l', some i') ∈ pre ++ [(l, (claim cs l).2)] → l' ≠ 0 := by
      intro l' i' hmem
      simp only [List.mem_append, List.mem_singleton, Prod.mk.injEq] at hmem
      rcases hmem with hmem | ⟨rfl, _⟩
      · exact hpre l' i' hmem
      · exact hl
    have := ih (claim cs l).1 (fun l' hl' => hnz l' (by simp [hl'])) (pre ++ [(l, (claim cs l).2)]) hrec' hpre' l1 l2 i
    simp only [claimAll, List.append_assoc, List.singleton_append] at this h1 h2
    exact this h1 h2

/-- the statement for a whole file: start with no comment attached -/
theorem c05_comment_once_file (cs : List Comment) (lines : List Nat) (h0 : ∀ l ∈ lines, l ≠ 0)
    (l1 l2 i : Nat) (h1 : (l1, some i) ∈ claimAll cs lines) (h2 : (l2, some i) ∈ claimAll cs lines) : l1 = l2 := by
  have := c05_comment_once lines cs h0 [] (by intro l i h; simp at h) (by intro l i h; simp at h) l1 l2 i
  simpa using this h1 h2

-- `/** doc */ void f();` on line 3, `void g();` on line 4: only f gets the comment (before the fix g got it too)
example : claimAll [⟨3, 0⟩] [3, 4] = [(3, some 0), (4, none)] := by decide
-- a comment on the line before its declaration; an unrelated earlier comment is not picked up
example : claimAll [⟨7, 0⟩, ⟨2, 0⟩] [5, 8] = [(5, none), (8, some 0)] := by decide

end IgVerif.C05
