import IgVerif.Lemmas.ModuleCycle
/-!
# C16 — module initialisation registers every library once, base classes first
-/
namespace IgVerif.C16
open IgVerif.MO

/-- **Each library at most once** in the emitted order, for every dependency graph. -/
theorem c16_each_once (g : Deps) : (order g).libs.Nodup := by
  obtain ⟨d', h⟩ := inv_run g (fuelFor g) g [] [] (inv_init g)
  exact h.nodup

/-- **Base classes first.** For every dependency graph — acyclic or not — every
dependency `a → b` (a library `a` whose classes derive from / are typedefs of
classes of `b`) that the cycle breaker did not report as broken is respected:
`b` is initialised strictly before `a`. -/
theorem c16_unbroken_respected (g : Deps) (a b : String) (hb : b ∈ g.get a)
    (ha : a ∈ (order g).libs) (hnb : (a, b) ∉ (order g).broken) : Before (order g).libs b a := by
  obtain ⟨d', h⟩ := inv_run g (fuelFor g) g [] [] (inv_init g)
  rcases h.respected a ha b hb with h1 | h1
  · exact absurd h1 hnb
  · exact h1

/-- corollary: when nothing had to be broken (in particular for acyclic graphs, where
the search finds no cycle) the order is a topological order of the emitted libraries -/
theorem c16_topological_when_unbroken (g : Deps) (h0 : (order g).broken = []) (a b : String)
    (hb : b ∈ g.get a) (ha : a ∈ (order g).libs) : Before (order g).libs b a :=
  c16_unbroken_respected g a b hb ha (by rw [h0]; simp)

def cyc' : Deps := [("liba", ["libb", "libc"]), ("libb", ["libc"]), ("libc", ["libd"]), ("libd", ["libb"])]

/-- **Without hanging.** For every dependency graph — with any number of cycles, and with
dependencies on libraries that are not keys of the map — the `while` loop of
`write_python_table_native` ends: every round emits a library, erases an edge of a cycle
that the search (with its visited set) finds on its first descent, or inserts a missing
key.  The model's loop carries fuel; this theorem shows the fuel is never exhausted. -/
theorem c16_terminates (g : Deps) (h : g.keys.Nodup) : (order g).finished = true :=
  (run_finishes (fuelFor g) g [] [] h List.nodup_nil (by simp) (by simpa using beta_lt_fuelFor g)).1

/-- **Every library is referenced**: each key of the map is emitted (and, by
`c16_each_once`, exactly once). -/
theorem c16_all_emitted (g : Deps) (h : g.keys.Nodup) (k : String) (hk : k ∈ g.keys) : k ∈ (order g).libs :=
  (run_finishes (fuelFor g) g [] [] h List.nodup_nil (by simp) (by simpa using beta_lt_fuelFor g)).2 k
    ((has_iff g k).mpr hk)

/-- **Only genuine cycles are broken.** Every dependency `a → b` the tool reports as broken
is an edge of the dependency graph that lies on a cycle: `a` is reachable again from `b`. -/
theorem c16_broken_on_cycle (g : Deps) (a b : String) (h : (a, b) ∈ (order g).broken) :
    b ∈ g.get a ∧ Reach g b a :=
  run_broken_ok g (fuelFor g) g [] [] (fun _ _ h => h) (by intro p hp; simp at hp) (a, b) h

/-- consequently an acyclic graph (no library reachable from one of its own dependencies)
is ordered topologically with nothing broken -/
theorem c16_acyclic_unbroken (g : Deps) (hac : ∀ a b, b ∈ g.get a → ¬ Reach g b a) : (order g).broken = [] := by
  cases hb : (order g).broken with
  | nil => rfl
  | cons p ps =>
    have hm : (p.1, p.2) ∈ (order g).broken := by rw [hb]; simp
    have := c16_broken_on_cycle g p.1 p.2 hm
    exact absurd this.2 (hac _ _ this.1)

/-- the hypothesis is satisfiable: a `std::map` has distinct keys -/
example : (Deps.keys cyc').Nodup := by decide

/-! ## non-vacuity and small-scope facts (these are *tests*, by evaluation) -/

def diamond : Deps := [("liba", ["libb", "libc"]), ("libb", ["libd"]), ("libc", ["libd"]), ("libd", [])]
example : order diamond = { libs := ["libd", "libb", "libc", "liba"], broken := [], finished := true } := by decide

def cyc : Deps := [("liba", ["libb", "libc"]), ("libb", ["libc"]), ("libc", ["libd"]), ("libd", ["libb"])]
example : (order cyc).finished = true ∧ (order cyc).libs.length = 4 ∧ (order cyc).broken.length = 1 := by decide

/-- a dependency on a library that is not a key: the key is inserted (by `operator[]`) and emitted -/
example : order [("liba", ["libz"])] = { libs := ["libz", "liba"], broken := [], finished := true } := by decide

end IgVerif.C16
