import IgVerif.Lemmas.Path
import IgVerif.Model.Include
/-!
# C17 — include lookup, path normalisation and file ownership
-/
namespace IgVerif.C17
open IgVerif.Path IgVerif.Inc

/-- **Normalisation is idempotent** for every path (any components, any length). -/
theorem c17_std_idempotent (p : P) : stdC (stdC p) = stdC p := stdC_idem p

/-- **Normalisation never changes which entry a path denotes** (directory trees
without symbolic links; `.`/`..`/repeated slashes in any arrangement). -/
theorem c17_std_denotes (fs : FS) (cwd : List String) (hwf : fs.WF cwd) (p : P) (l : List String)
    (h : resolve fs cwd p = some l) : resolve fs cwd (stdC p) = some l :=
  stdC_denotes fs cwd hwf p l h

/-- the result of normalisation is never the empty path -/
theorem c17_std_nonempty_relative (p : P) (h : p.global = false) : (stdC p).comps ≠ [] := by
  unfold stdC
  split
  · rename_i h0
    simp only [Bool.and_eq_true, beq_iff_eq] at h0
    rw [h0.2]; simp
  · simp only [h, Bool.not_false, Bool.and_true]
    split
    · simp
    · rename_i hne; intro he; simp [he] at hne

/-- `#include <x>` is looked for only in the -S directories (unless -noangles) … -/
theorem c17_angle_only_S (ex : String → Bool) (cfg : Cfg) (dir name : String) (h : cfg.noangles = false)
    (r : String × Source) (hr : findInclude ex cfg dir name true = some r) :
    r.2 = .system ∧ ∃ d ∈ cfg.angleDirs, r.1 = joinDir d name := by
  unfold findInclude candidates at hr
  simp only [h, Bool.not_false, Bool.and_true, if_true] at hr
  have hm := List.mem_of_find?_eq_some hr
  simp only [List.mem_map] at hm
  obtain ⟨d, hd, e⟩ := hm
  exact ⟨by rw [← e], d, hd, by rw [← e]⟩

/-- … and under -noangles exactly like `#include "x"` -/
theorem c17_noangles_like_quotes (ex : String → Bool) (cfg : Cfg) (dir name : String) (h : cfg.noangles = true) :
    findInclude ex cfg dir name true = findInclude ex cfg dir name false := by
  simp [findInclude, candidates, h]

/-- `#include "x"`: working directory first, then the includer's directory, then the
-I and -S directories in command-line order; the first existing candidate wins -/
theorem c17_search_order (ex : String → Bool) (cfg : Cfg) (dir name : String) :
    findInclude ex cfg dir name false =
      ((name, Source.loc) :: (joinDir dir name, Source.alternate) ::
        cfg.quoteDirs.map fun p => (joinDir p.1 name, p.2)).find? fun c => ex c.1 := by
  simp [findInclude, candidates]

/-- a file that does not exist anywhere is not found (the directive is skipped with a warning) -/
theorem c17_missing_skipped (ex : String → Bool) (cfg : Cfg) (dir name : String) (angle : Bool)
    (h : ∀ c ∈ candidates cfg dir name angle, ex c.1 = false) : findInclude ex cfg dir name angle = none := by
  unfold findInclude
  rw [List.find?_eq_none]
  intro c hc
  simp [h c hc]

/-- a file reached through a -S directory is never the user's own unless it was named on the command line -/
theorem c17_S_never_local (explicit : List String) (canonical : String) (h : explicit.contains canonical = false) :
    classify explicit canonical .system = .system := by
  unfold classify
  rw [h]
  rfl

/-! ## non-vacuity -/
example : stdC ⟨false, ["a", "..", "b", ".", "..", ".."]⟩ = ⟨false, [".."]⟩ := by decide
example : stdC ⟨false, ["a", ".."]⟩ = ⟨false, ["."]⟩ := by decide
example : stdC ⟨true, ["..", "a", ".", "b", ".."]⟩ = ⟨true, ["..", "a"]⟩ := by decide
example : stdC ⟨false, [".", "..", "x"]⟩ = ⟨false, ["..", "x"]⟩ := by decide

end IgVerif.C17
