import IgVerif.Model.Export
import IgVerif.Gen.C04Gates
/-!
# C04 — only the published API of the named files is exported
-/
namespace IgVerif.C04
open IgVerif.Ex4

/-- the guard sequences read from the current source are the ones the model interprets
(a removed, added or reordered guard changes the regenerated file and fails here) -/
theorem c04_gates_mirror :
    Gen.c04ExtractionFailed = false ∧
    Gen.c04_scan_function = functionGates.map gateName ∧
    Gen.c04_scan_struct_type = structGates.map gateName ∧
    Gen.c04_scan_enum_type = enumGates.map gateName ∧
    Gen.c04_scan_manifest = manifestGates.map gateName ∧
    Gen.c04_scan_element = elementGates.map gateName ∧
    Gen.c04_define_method = methodGates.map gateName ∧
    Gen.c04_define_struct_type = ["anonymous", "cfile", "notlocal_unless_forced", "unpublished_struct", "involves_protected"] := by decide

/-- **Global functions**: exported iff declared in a command-line / working-directory header,
with at least the requested visibility, not static, deleted or a template, and with a signature
free of protected/private types, ignored types and rvalue references. -/
theorem c04_function_iff (cfg : Cfg) (d : Decl) :
    passes functionGates cfg d = true ↔
      (d.scopedDecl = false ∧ d.template = false ∧ d.cFile = false ∧ d.localFile = true ∧ d.vis ≤ cfg.minVis ∧
       d.isStatic = false ∧ d.deleted = false ∧ d.involvesProtected = false ∧ d.ignoreInvolved = false ∧ d.rvalueRef = false) := by
  simp only [passes, functionGates, fires, List.all_cons, List.all_nil, Bool.and_true, Bool.and_eq_true, Bool.not_eq_true',
    decide_eq_false_iff_not, Nat.not_lt, Bool.or_eq_false_iff, Bool.not_eq_false']
  constructor
  · rintro ⟨h1, h2, h3, h4, h5, ⟨h6, h7⟩, h8, h9, h10⟩
    exact ⟨h1, h2, h3, h4, h5, h6, h7, h8, h9, h10⟩
  · rintro ⟨h1, h2, h3, h4, h5, h6, h7, h8, h9, h10⟩
    exact ⟨h1, h2, h3, h4, h5, ⟨h6, h7⟩, h8, h9, h10⟩

/-- **Methods**: as for functions, within an exported class; static methods are exported, a
public destructor and `get_class_type()` count as published. -/
theorem c04_method_iff (cfg : Cfg) (d : Decl) :
    passes methodGates cfg d = true ↔
      (d.template = false ∧ d.deleted = false ∧ ¬ (d.isDestructor = true ∧ d.vis > 1) ∧ (forcePublish d = true ∨ d.vis ≤ cfg.minVis) ∧
       d.involvesProtected = false ∧ d.ignoreInvolved = false ∧ d.ignoreMember = false ∧ d.inheritedPublished = false ∧ d.rvalueRef = false) := by
  simp only [passes, methodGates, fires, List.all_cons, List.all_nil, Bool.and_true, Bool.and_eq_true, Bool.not_eq_true',
    decide_eq_false_iff_not, Nat.not_lt, Bool.and_eq_false_iff, Bool.not_eq_false', decide_eq_true_eq]
  constructor
  · rintro ⟨h1, h2, h3, h4, h5, h6, h7, h8, h9⟩
    refine ⟨h1, h2, ?_, ?_, h5, h6, h7, h8, h9⟩
    · rintro ⟨hd, hv⟩
      rcases h3 with h3 | h3
      · rw [hd] at h3; exact absurd h3 (by simp)
      · omega
    · rcases h4 with h4 | h4
      · exact Or.inl h4
      · exact Or.inr h4
  · rintro ⟨h1, h2, h3, h4, h5, h6, h7, h8, h9⟩
    refine ⟨h1, h2, ?_, ?_, h5, h6, h7, h8, h9⟩
    · by_cases hd : d.isDestructor = true
      · right
        by_cases hv : d.vis > 1
        · exact absurd ⟨hd, hv⟩ h3
        · omega
      · left; simpa using hd
    · rcases h4 with h4 | h4
      · exact Or.inl h4
      · exact Or.inr h4

/-- **Nothing leaks.** A function or method that is below the requested visibility (and not one of
the two documented exceptions), deleted, from a file that is not local, or whose signature involves
a protected/private type or an rvalue reference, is never exported — whatever else holds. -/
theorem c04_no_leak (cfg : Cfg) (d : Decl)
    (h : (d.vis > cfg.minVis ∧ forcePublish d = false) ∨ d.deleted = true ∨ d.involvesProtected = true ∨ d.rvalueRef = true ∨ d.template = true) :
    passes methodGates cfg d = false ∧ (d.localFile = false ∨ d.vis > cfg.minVis ∨ d.deleted = true ∨ d.involvesProtected = true ∨ d.rvalueRef = true ∨ d.template = true →
      passes functionGates cfg d = false) := by
  constructor
  · cases hm : passes methodGates cfg d with
    | false => rfl
    | true =>
      have := (c04_method_iff cfg d).mp hm
      obtain ⟨h1, h2, _, h4, h5, _, _, _, h9⟩ := this
      rcases h with ⟨hv, hf⟩ | h | h | h | h
      · rcases h4 with h4 | h4
        · rw [hf] at h4; exact absurd h4 (by simp)
        · omega
      · rw [h2] at h; exact absurd h (by simp)
      · rw [h5] at h; exact absurd h (by simp)
      · rw [h9] at h; exact absurd h (by simp)
      · rw [h1] at h; exact absurd h (by simp)
  · intro hf
    cases hm : passes functionGates cfg d with
    | false => rfl
    | true =>
      have := (c04_function_iff cfg d).mp hm
      obtain ⟨_, h2, _, h4, h5, _, h7, h8, _, h10⟩ := this
      rcases hf with h | h | h | h | h | h
      · rw [h4] at h; exact absurd h (by simp)
      · omega
      · rw [h7] at h; exact absurd h (by simp)
      · rw [h8] at h; exact absurd h (by simp)
      · rw [h10] at h; exact absurd h (by simp)
      · rw [h2] at h; exact absurd h (by simp)

/-- classes: a local, non-template class is scanned iff it or one of its members reaches the
requested visibility; enums and object-like macros need the visibility themselves -/
theorem c04_struct_iff (cfg : Cfg) (d : Decl) :
    passes structGates cfg d = true ↔
      (d.isNull = false ∧ d.template = false ∧ d.cFile = false ∧ d.localFile = true ∧ (d.vis ≤ cfg.minVis ∨ d.anyMemberExported = true)) := by
  simp only [passes, structGates, fires, List.all_cons, List.all_nil, Bool.and_true, Bool.and_eq_true, Bool.not_eq_true',
    decide_eq_false_iff_not, Nat.not_lt, Bool.and_eq_false_iff, Bool.not_eq_false']

theorem c04_enum_manifest (cfg : Cfg) (d : Decl) :
    (passes enumGates cfg d = true → d.localFile = true ∧ d.vis ≤ cfg.minVis) ∧
    (passes manifestGates cfg d = true → d.localFile = true ∧ d.vis ≤ cfg.minVis ∧ d.functionLike = false) := by
  simp only [passes, enumGates, manifestGates, fires, List.all_cons, List.all_nil, Bool.and_true, Bool.and_eq_true, Bool.not_eq_true',
    decide_eq_false_iff_not, Nat.not_lt, Bool.not_eq_false']
  exact ⟨fun h => ⟨h.2.2.2.1, h.2.2.2.2⟩, fun h => ⟨h.2.2.1, h.2.2.2.1, h.2.2.2.2⟩⟩

/-- **-promiscuous only adds**: raising the requested visibility never removes an export -/
theorem c04_promiscuous_monotone (gs : List Gate) (cfg cfg' : Cfg) (d : Decl) (hm : cfg.minVis ≤ cfg'.minVis)
    (h : passes gs cfg d = true) : passes gs cfg' d = true := by
  simp only [passes, List.all_eq_true] at *
  intro g hg
  have := h g hg
  cases g <;> simp only [fires, Bool.not_eq_true', Bool.and_eq_false_iff, decide_eq_false_iff_not, Nat.not_lt, Bool.not_eq_false'] at this ⊢ <;> first
    | exact this
    | (rcases this with h1 | h1
       · exact Or.inl (by first | omega | exact h1)
       · exact Or.inr (by first | omega | exact h1))
    | omega

-- non-vacuity: a published method of a local class is exported by default, a merely public one only under -promiscuous
example : passes methodGates ⟨0⟩ { vis := 0 } = true ∧ passes methodGates ⟨0⟩ { vis := 1 } = false ∧ passes methodGates ⟨1⟩ { vis := 1 } = true := by decide
example : passes functionGates ⟨0⟩ { vis := 0, localFile := false } = false := by decide
example : passes methodGates ⟨0⟩ { vis := 1, isDestructor := true } = true ∧ passes methodGates ⟨1⟩ { vis := 2, isDestructor := true } = false := by decide

end IgVerif.C04
