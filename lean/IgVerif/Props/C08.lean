import IgVerif.Model.Macro
/-!
# C08 — `#` produces a string literal that spells its argument
-/
namespace IgVerif.C08
open IgVerif.Mac

theorem unescape_cons_plain (c : Nat) (rest : List Nat) (h : c ≠ 92) : unescape (c :: rest) = c :: unescape rest := by
  cases rest with
  | nil => simp [unescape]
  | cons d ds => simp [unescape, h]

theorem unescape_esc (c : Nat) (rest : List Nat) : unescape (92 :: c :: rest) = c :: unescape rest := by
  simp [unescape]

/-- every piece the loop appends reads back as the character it was produced for -/
theorem step_reads_back (st : SState) (c : Nat) (rest : List Nat)
    (h : (st.escaped || st.quoted || c != 92) = true) :
    unescape ((step st c).2 ++ rest) = c :: unescape rest := by
  unfold step
  by_cases he : st.escaped = true
  · simp only [he, Bool.not_true, Bool.false_eq_true, if_false]
    by_cases hc : (c == 92 || c == 34) = true
    · simp only [hc, if_true, List.cons_append, List.nil_append]
      exact unescape_esc c rest
    · simp only [hc, Bool.false_eq_true, if_false, List.cons_append, List.nil_append]
      apply unescape_cons_plain
      intro h92; subst h92; simp at hc
  · have he' : st.escaped = false := by simpa using he
    simp only [he', Bool.not_false, if_true]
    by_cases h92 : (c == 92) = true
    · have hc : c = 92 := by simpa using h92
      subst hc
      have hq : st.quoted = true := by simpa [he'] using h
      simp only [BEq.rfl, if_true, hq, List.cons_append, List.nil_append]
      exact unescape_esc 92 rest
    · have hne : c ≠ 92 := by simpa using h92
      simp only [h92, Bool.false_eq_true, if_false]
      by_cases h39 : (c == 39) = true
      · simp only [h39, if_true, List.cons_append, List.nil_append]
        exact unescape_cons_plain c rest hne
      · simp only [h39, Bool.false_eq_true, if_false]
        by_cases h34 : (c == 34) = true
        · simp only [h34, if_true, List.cons_append, List.nil_append]
          exact unescape_esc c rest
        · simp only [h34, Bool.false_eq_true, if_false, List.cons_append, List.nil_append]
          exact unescape_cons_plain c rest hne

theorem go_reads_back : ∀ (src : List Nat) (st : SState) (tail : List Nat), wellLexed st src = true →
    unescape (go st src ++ tail) = src ++ unescape tail
  | [], _, tail, _ => by simp [go]
  | c :: cs, st, tail, h => by
    simp only [wellLexed, Bool.and_eq_true] at h
    simp only [go, List.append_assoc]
    rw [step_reads_back st c _ h.1, go_reads_back cs _ tail h.2]
    simp

/-- **`#` round trip.** For every argument that is a sequence of well-lexed tokens (no
backslash outside a literal), `stringify` yields `"` + body + `"` where the body, read back
with the escapes `\\` and `\"` undone, is exactly the argument — so an escaped quote inside a
literal never ends the produced literal early. -/
theorem c08_stringify_roundtrip (src : List Nat) (h : wellLexed SState.init src = true) :
    ∃ body, stringify src = 34 :: (body ++ [34]) ∧ unescape body = src := by
  refine ⟨go SState.init src, rfl, ?_⟩
  have := go_reads_back src SState.init [] h
  simpa [unescape] using this

/-- the produced body never contains an unescaped `"`: read back, it has as many quotes as the
argument (corollary of the round trip), and it begins and ends with the delimiters -/
theorem c08_stringify_delimited (src : List Nat) : (stringify src).head? = some 34 ∧ (stringify src).getLast? = some 34 := by
  refine ⟨by simp [stringify], ?_⟩
  have : stringify src = (34 :: go SState.init src) ++ [34] := by simp [stringify]
  rw [this, List.getLast?_append]
  simp

-- STR("q\"r")  →  "\"q\\\"r\""
example : stringify [34, 113, 92, 34, 114, 34] = [34, 92, 34, 113, 92, 92, 92, 34, 114, 92, 34, 34] := by decide
-- a '"' character literal does not open a string: 7 '"' "s\n"
example : stringify [39, 34, 39, 32, 34, 115, 92, 110, 34]
    = [34, 39, 92, 34, 39, 32, 92, 34, 115, 92, 92, 110, 92, 34, 34] := by decide
example : wellLexed SState.init [34, 113, 92, 34, 114, 34] = true := by decide

end IgVerif.C08
