import IgVerif.Model.Macro
import IgVerif.Lemmas.Expand
/-!
# C08 — `#` produces a string literal that spells its argument
-/
namespace IgVerif.C08
open IgVerif.Mac

theorem unescape_cons_plain (c : Nat) (rest : List Nat) (h : c ≠ 92) : unescape (c :: rest) = c :: unescape rest := by
  cases rest with
  | nil => simp [unescape]
  | cons d ds => simp [unescape, h]

theorem unescape_esc (c : Nat) (rest : List Nat) : unescape (92 :: c :: rest) = c :: unescape rest := by
  simp [unescape]

/-- every piece the loop appends reads back as the character it was produced for -/
theorem step_reads_back (st : SState) (c : Nat) (rest : List Nat)
    (h : (st.escaped || st.quoted || c != 92) = true) :
    unescape ((step st c).2 ++ rest) = c :: unescape rest := by
  unfold step
  by_cases he : st.escaped = true
  · simp only [he, Bool.not_true, Bool.false_eq_true, if_false]
    by_cases hc : (c == 92 || c == 34) = true
    · simp only [hc, if_true, List.cons_append, List.nil_append]
      exact unescape_esc c rest
    · simp only [hc, Bool.false_eq_true, if_false, List.cons_append, List.nil_append]
      apply unescape_cons_plain
      intro h92; subst h92; simp at hc
  · have he' : st.escaped = false := by simpa using he
    simp only [he', Bool.not_false, if_true]
    by_cases h92 : (c == 92) = true
    · have hc : c = 92 := by simpa using h92
      subst hc
      have hq : st.quoted = true := by simpa [he'] using h
      simp only [BEq.rfl, if_true, hq, List.cons_append, List.nil_append]
      exact unescape_esc 92 rest
    · have hne : c ≠ 92 := by simpa using h92
      simp only [h92, Bool.false_eq_true, if_false]
      by_cases h39 : (c == 39) = true
      · simp only [h39, if_true, List.cons_append, List.nil_append]
        exact unescape_cons_plain c rest hne
      · simp only [h39, Bool.false_eq_true, if_false]
        by_cases h34 : (c == 34) = true
        · simp only [h34, if_true, List.cons_append, List.nil_append]
          exact unescape_esc c rest
        · simp only [h34, Bool.false_eq_true, if_false, List.cons_append, List.nil_append]
          exact unescape_cons_plain c rest hne

theorem go_reads_back : ∀ (src : List Nat) (st : SState) (tail : List Nat), wellLexed st src = true →
    unescape (go st src ++ tail) = src ++ unescape tail
  | [], _, tail, _ => by simp [go]
  | c :: cs, st, tail, h => by
    simp only [wellLexed, Bool.and_eq_true] at h
    simp only [go, List.append_assoc]
    rw [step_reads_back st c _ h.1, go_reads_back cs _ tail h.2]
    simp

/-- **`#` round trip.** For every argument that is a sequence of well-lexed tokens (no
backslash outside a literal), `stringify` yields `"` + body + `"` where the body, read back
with the escapes `\\` and `\"` undone, is exactly the argument — so an escaped quote inside a
literal never ends the produced literal early. -/
theorem c08_stringify_roundtrip (src : List Nat) (h : wellLexed SState.init src = true) :
    ∃ body, stringify src = 34 :: (body ++ [34]) ∧ unescape body = src := by
  refine ⟨go SState.init src, rfl, ?_⟩
  have := go_reads_back src SState.init [] h
  simpa [unescape] using this

/-- the produced body never contains an unescaped `"`: read back, it has as many quotes as the
argument (corollary of the round trip), and it begins and ends with the delimiters -/
theorem c08_stringify_delimited (src : List Nat) : (stringify src).head? = some 34 ∧ (stringify src).getLast? = some 34 := by
  refine ⟨by simp [stringify], ?_⟩
  have : stringify src = (34 :: go SState.init src) ++ [34] := by simp [stringify]
  rw [this, List.getLast?_append]
  simp

-- STR("q\"r")  →  "\"q\\\"r\""
example : stringify [34, 113, 92, 34, 114, 34] = [34, 92, 34, 113, 92, 92, 92, 34, 114, 92, 34, 34] := by decide
-- a '"' character literal does not open a string: 7 '"' "s\n"
example : stringify [39, 34, 39, 32, 34, 115, 92, 110, 34]
    = [34, 39, 92, 34, 39, 32, 92, 34, 115, 92, 92, 110, 92, 34, 34] := by decide
example : wellLexed SState.init [34, 113, 92, 34, 114, 34] = true := by decide

/-! ## one level of expansion (`Model/Expand.lean`: `save_expansion` + `r_expand`) -/
open IgVerif.Exp in
/-- **A literal in a macro body is opaque.** While the body of a `#define` is cut into nodes,
a string literal — or a character literal, i.e. an apostrophe not preceded by a digit or
letter — is appended to the chunk being collected exactly as written: parameter names, `#`,
`##` and blanks inside it have no effect. -/
theorem c08_literal_opaque (names : List (List Nat)) (variadic : Option Nat) (fuel : Nat) (q : Nat) (body rest : List Nat)
    (prev : Option Nat) (cur : List Nat) (str paste : Bool) (nodes : List Node)
    (hq : q = 34 ∨ (q = 39 ∧ prevAlnum prev = false)) (hb : ∀ c ∈ body, c ≠ q ∧ c ≠ 92) :
    save names variadic (fuel + 1) (q :: (body ++ q :: rest)) prev cur str paste nodes =
      save names variadic fuel rest (some q) (cur ++ q :: (body ++ [q])) str paste nodes :=
  save_literal names variadic fuel q body rest prev cur str paste nodes hq hb

open IgVerif.Exp in
/-- consequently a macro whose body is one string literal expands to that literal, whatever
its parameters are called and whatever arguments it is given -/
theorem c08_literal_body (names : List (List Nat)) (variadic : Option Nat) (body : List Nat) (args : List (List Nat))
    (hb : ∀ c ∈ body, c ≠ 34 ∧ c ≠ 92) :
    expandOnce names variadic (34 :: (body ++ [34])) args = 34 :: (body ++ [34]) := by
  unfold expandOnce saveExpansion
  have h := save_literal names variadic (34 :: (body ++ [34])).length 34 body [] none [] false false [] (Or.inl rfl) hb
  simp only [List.nil_append] at h
  rw [h]
  cases hl : (34 :: (body ++ [34])).length with
  | zero => simp at hl
  | succ n => simp [save, flush, rExpand, rExpandGo, addText]

open IgVerif.Exp in
/-- `#define S(x) #x`: `S(arg)` is `stringify arg` (whose value `c08_stringify_roundtrip` gives) -/
theorem c08_stringify_param (arg : List Nat) :
    expandOnce [[120]] none [35, 120] [arg] = stringify arg := by
  have hs : saveExpansion [[120]] none [35, 120] = [.param 0 true false true] := by decide
  unfold expandOnce
  rw [hs]
  have hne : (stringify arg).isEmpty = false := by simp [stringify]
  simp [rExpand, rExpandGo, addSubst, hne]

open IgVerif.Exp in
/-- **`__VA_ARGS__`**: `#define V(...) __VA_ARGS__` — `V(a, b, …)` is the arguments joined by
`, `, for any number of arguments (none included) -/
theorem c08_va_args_join (args : List (List Nat)) :
    expandOnce [] (some 0) [95, 95, 86, 65, 95, 65, 82, 71, 83, 95, 95] args = joinArgs args := by
  have hs : saveExpansion [] (some 0) [95, 95, 86, 65, 95, 65, 82, 71, 83, 95, 95] = [.param 0 false false true] := by decide
  unfold expandOnce
  rw [hs]
  cases args with
  | nil => simp [rExpand, rExpandGo, joinArgs]
  | cons a as =>
    by_cases he : (joinArgs (a :: as)).isEmpty = true
    · have : joinArgs (a :: as) = [] := by simpa using he
      simp [rExpand, rExpandGo, this]
    · simp [rExpand, rExpandGo, addSubst, he]

open IgVerif.Exp in
/-- `#define S(...) #__VA_ARGS__` with at least one argument: the joined arguments, stringified -/
theorem c08_hash_va_args (a : List Nat) (as : List (List Nat)) :
    expandOnce [] (some 0) [35, 95, 95, 86, 65, 95, 65, 82, 71, 83, 95, 95] (a :: as) = stringify (joinArgs (a :: as)) := by
  have hs : saveExpansion [] (some 0) [35, 95, 95, 86, 65, 95, 65, 82, 71, 83, 95, 95] = [.param 0 true false true] := by decide
  unfold expandOnce
  rw [hs]
  have hne : (stringify (joinArgs (a :: as))).isEmpty = false := by simp [stringify]
  simp [rExpand, rExpandGo, addSubst, hne]

open IgVerif.Exp in
/-- `#define ID(x) x`: `ID(a)` is `a` -/
theorem c08_identity_param (arg : List Nat) : expandOnce [[120]] none [120] [arg] = arg := by
  have hs : saveExpansion [[120]] none [120] = [.param 0 false false true] := by decide
  unfold expandOnce
  rw [hs]
  cases arg with
  | nil => simp [rExpand, rExpandGo]
  | cons a as => simp [rExpand, rExpandGo, addSubst]

open IgVerif.Exp in
/-- **Parameter substitution**, any number of parameters: a body that is the name of the `i`-th
parameter (an identifier other than `__VA_ARGS__`) expands to the `i`-th argument; to nothing if
fewer arguments were given -/
theorem c08_param_substitution (names : List (List Nat)) (c : Nat) (rest : List Nat) (i : Nat) (args : List (List Nat))
    (hc : isIdStart c = true) (hr : ∀ x ∈ rest, isIdChar x = true)
    (hva : (c :: rest) ≠ vaArgs) (hi : indexOf names (c :: rest) = some i) :
    expandOnce names none (c :: rest) args = args.getD i [] :=
  expand_param_only names c rest i args hc hr hva hi

open IgVerif.Exp in
/-- **`#` on any parameter**: `#define S(…, p_i, …) #p_i` — `S(args)` is the `i`-th argument
stringified (what that literal spells is `c08_stringify_roundtrip`); the empty string literal
if the argument is missing -/
theorem c08_hash_any_param (names : List (List Nat)) (c : Nat) (rest : List Nat) (i : Nat) (args : List (List Nat))
    (hc : isIdStart c = true) (hr : ∀ x ∈ rest, isIdChar x = true)
    (hva : (c :: rest) ≠ vaArgs) (hi : indexOf names (c :: rest) = some i) :
    expandOnce names none (35 :: c :: rest) args = stringify (args.getD i []) :=
  expand_hash_param names c rest i args hc hr hva hi

-- `#define M(p0, p1) p1` with M(x, yz)
example : Exp.indexOf [[112, 48], [112, 49]] [112, 49] = some 1 ∧
    Exp.expandOnce [[112, 48], [112, 49]] none [112, 49] [[120], [121, 122]] = [121, 122] := by decide

open IgVerif.Exp in
/-- `#define CAT(a, b) a ## b`: `CAT(x, y)` is `x` and `y` joined without a blank, for all
arguments — an empty one (a placemarker) leaves the other as it is -/
theorem c08_paste_params (x y : List Nat) : expandOnce [[97], [98]] none [97, 32, 35, 35, 32, 98] [x, y] = x ++ y := by
  have hs : saveExpansion [[97], [98]] none [97, 32, 35, 35, 32, 98] = [.param 0 false false false, .param 1 false true true] := by decide
  unfold expandOnce
  rw [hs]
  cases x with
  | nil =>
    cases y with
    | nil => simp [rExpand, rExpandGo]
    | cons b bs => simp [rExpand, rExpandGo, addSubst]
  | cons a as =>
    cases y with
    | nil => simp [rExpand, rExpandGo, addSubst]
    | cons b bs => simp [rExpand, rExpandGo, addSubst]

-- `#define RED "#FF0000"` and `#define F(x) "x" x` with F(1), as C++ has them
example : Exp.expandOnce [] none [34, 35, 70, 70, 48, 48, 48, 48, 34] [] = [34, 35, 70, 70, 48, 48, 48, 48, 34] := by decide
example : Exp.expandOnce [[120]] none [34, 120, 34, 32, 120] [[49]] = [34, 120, 34, 32, 49] := by decide

end IgVerif.C08
