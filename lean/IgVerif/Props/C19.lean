import IgVerif.Lemmas.OutProto
import IgVerif.Gen.C19Proto
/-!
# C19 — a failed or incomplete output write is reported by a non-zero exit status
-/
namespace IgVerif.C19
open IgVerif.OP

/-- the translator recognised every statement of both output sections that touches
an output stream or the exit status -/
theorem c19_extraction_ok : Gen.protoExtractionFailed = false := by decide

/-- **Generic.** A protocol accepted by the syntactic check reports every loss: for
every fault schedule (which open / flush / close fails, and when the buffer happens
to be flushed), lost output data implies a non-zero exit status. -/
theorem c19_generic (p : Proto) (hw : wellChecked p = true) (sched : List Nat)
    (hlost : (run p sched).lost = true) : (run p sched).exitNonZero = true :=
  wellChecked_sound p hw sched hlost

/-- the output section of `interrogate`'s `main` (as the source reads now) passes the check -/
theorem c19_interrogate : wellChecked Gen.interrogateProto = true := by decide

/-- the output section of `interrogate_module`'s `main` passes the check -/
theorem c19_module : wellChecked Gen.moduleProto = true := by decide

/-- hence: `interrogate` never exits 0 after losing output on -oc, -od or -oh … -/
theorem c19_interrogate_all_faults (sched : List Nat) (h : (run Gen.interrogateProto sched).lost = true) :
    (run Gen.interrogateProto sched).exitNonZero = true :=
  c19_generic _ c19_interrogate sched h

/-- … and neither does `interrogate_module` on -oc -/
theorem c19_module_all_faults (sched : List Nat) (h : (run Gen.moduleProto sched).lost = true) :
    (run Gen.moduleProto sched).exitNonZero = true :=
  c19_generic _ c19_module sched h

/-! ## non-vacuity: faults do lose data, and an unchecked protocol does exit 0 -/

/-- the protocol of the pinned upstream tree for -od: no check after the writer -/
def uncheckedProto : Proto :=
  { returnsStatus := true, body := [.s (.open 1), .ifFailElse 1 true [.write 1]] }

example : wellChecked uncheckedProto = false := by decide
example : run uncheckedProto [0, 0, 2] = { exitNonZero := false, lost := true } := by decide
/-- all schedules over {0,1,2} of a given length -/
def scheds : Nat → List (List Nat)
  | 0 => [[]]
  | n+1 => (scheds n).flatMap fun s => [0 :: s, 1 :: s, 2 :: s]

-- some fault schedule does lose data in each extracted protocol (the hypotheses of the *_all_faults theorems are satisfiable)
example : ((scheds 4).any fun s => (run Gen.interrogateProto s).lost) = true := by decide
example : ((scheds 4).any fun s => (run Gen.moduleProto s).lost) = true := by decide

end IgVerif.C19
