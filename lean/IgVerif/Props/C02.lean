import IgVerif.Model.Dispatch
import IgVerif.Gen.C02Keywords
/-!
# C02 — the overload that runs is the one C++ would select
-/
namespace IgVerif.C02
open IgVerif.Dp

/-- wrong argument count never reaches a C++ function -/
theorem c02_arity_gate (sub : Nat → Nat → Bool) (rs : List Remap) (args : List PyV) (r : Remap)
    (h : dispatch sub rs args = some r) : r ∈ rs ∧ r.minArgs ≤ args.length ∧ args.length ≤ r.cats.length ∧ acceptsAll sub r.cats args = true := by
  unfold dispatch at h
  have hm := List.mem_of_find?_eq_some h
  have hp := List.find?_some h
  simp only [viable, Bool.and_eq_true, decide_eq_true_eq] at hp
  exact ⟨hm, hp.1.1, hp.1.2, hp.2⟩

/-- if no overload accepts the arguments the call is refused (`TypeError`), no function runs -/
theorem c02_no_viable_typeerror (sub : Nat → Nat → Bool) (rs : List Remap) (args : List PyV)
    (h : ∀ r ∈ rs, viable sub r args = false) : dispatch sub rs args = none := by
  unfold dispatch
  rw [List.find?_eq_none]
  intro r hr
  simp [h r hr]

/-- **Unique viable overload.** When exactly one overload of the set accepts the arguments — the
case for overload sets whose members differ in some parameter's type category or in arity — that
overload runs, wherever it stands in the emission order. -/
theorem c02_dispatch_unique (sub : Nat → Nat → Bool) (rs : List Remap) (args : List PyV) (w : Remap)
    (hw : w ∈ rs) (hv : viable sub w args = true) (hu : ∀ r ∈ rs, viable sub r args = true → r = w) :
    dispatch sub rs args = some w := by
  unfold dispatch
  induction rs with
  | nil => simp at hw
  | cons x xs ih =>
    simp only [List.find?_cons]
    cases hx : viable sub x args with
    | true =>
      have := hu x (by simp) hx
      simp [this]
    | false =>
      simp only
      have hw' : w ∈ xs := by
        simp only [List.mem_cons] at hw
        rcases hw with rfl | hw
        · rw [hv] at hx; exact absurd hx (by simp)
        · exact hw
      exact ih hw' (fun r hr => hu r (by simp [hr]))

theorem c02_dispatch_order_independent (sub : Nat → Nat → Bool) (rs rs' : List Remap) (args : List PyV) (w : Remap)
    (hp : rs.Perm rs') (hw : w ∈ rs) (hv : viable sub w args = true) (hu : ∀ r ∈ rs, viable sub r args = true → r = w) :
    dispatch sub rs args = dispatch sub rs' args := by
  rw [c02_dispatch_unique sub rs args w hw hv hu,
      c02_dispatch_unique sub rs' args w (hp.mem_iff.mp hw) hv (fun r hr => hu r (hp.mem_iff.mpr hr))]

/-- **Several viable overloads** (e.g. `f(int)` and `f(double)` called with an int): if the
emission order never puts a better match after a worse one, and `w` is better than every other
viable overload, `w` runs.  (`better` is any relation; C++'s is "at least as good a conversion in
every argument and strictly better in one".) -/
theorem c02_first_viable_is_best (sub : Nat → Nat → Bool) (better : Remap → Remap → Prop) (rs : List Remap) (args : List PyV) (w : Remap)
    (hsorted : rs.Pairwise (fun a b => ¬ better b a))
    (hw : w ∈ rs) (hv : viable sub w args = true)
    (hbest : ∀ r ∈ rs, viable sub r args = true → r ≠ w → better w r) :
    dispatch sub rs args = some w := by
  unfold dispatch
  induction rs with
  | nil => simp at hw
  | cons x xs ih =>
    simp only [List.find?_cons]
    rw [List.pairwise_cons] at hsorted
    cases hx : viable sub x args with
    | true =>
      simp only
      by_cases hxw : x = w
      · rw [hxw]
      · -- x is viable, different from w, hence w is better than x; but w comes after x
        have hb := hbest x (by simp) hx hxw
        have hw' : w ∈ xs := by
          simp only [List.mem_cons] at hw
          rcases hw with rfl | hw
          · exact absurd rfl hxw
          · exact hw
        exact absurd hb (hsorted.1 w hw')
    | false =>
      simp only
      have hw' : w ∈ xs := by
        simp only [List.mem_cons] at hw
        rcases hw with rfl | hw
        · rw [hv] at hx; exact absurd hx (by simp)
        · exact hw
      exact ih hsorted.2 hw' (fun r hr => hbest r (by simp [hr]))

-- f(int), f(double), f(str), f(K const &), f(int, int=…): who runs?
private def sub0 : Nat → Nat → Bool := fun d b => d == b || (d == 1 && b == 0)     -- class 1 derives from class 0
private def fi : Remap := ⟨[.int], 1, 1⟩
private def fd : Remap := ⟨[.float], 1, 2⟩
private def fs : Remap := ⟨[.str], 1, 3⟩
private def fk : Remap := ⟨[.obj 0 true], 1, 4⟩
private def fm : Remap := ⟨[.obj 0 false], 1, 5⟩
private def fii : Remap := ⟨[.int, .int], 2, 6⟩      -- no default
example : dispatch sub0 [fi, fd, fs, fk] [.int] = some fi ∧ dispatch sub0 [fi, fd, fs, fk] [.float] = some fd ∧
    dispatch sub0 [fi, fd, fs, fk] [.inst 1 true] = some fk ∧ dispatch sub0 [fi, fd, fs, fk] [.none] = none := by decide
-- a const instance is refused by a non-const parameter, whatever else is in the set
example : dispatch sub0 [fm, fi] [.inst 0 true] = none ∧ dispatch sub0 [fm, fi] [.inst 0 false] = some fm := by decide
example : dispatch sub0 [fii] [.int] = none ∧ dispatch sub0 [⟨[.int, .int], 1, 7⟩] [.int] = some ⟨[.int, .int], 1, 7⟩ := by decide

end IgVerif.C02

/-! ## the emission order produced by `RemapCompareLess` satisfies the hypothesis of
`c02_first_viable_is_best` -/
namespace IgVerif.C02
open IgVerif.Dp

/-- lexicographic "greater" on rank vectors (higher `get_type_sort` first) -/
def lexGt : List Nat → List Nat → Bool
  | [], _ => false
  | _ :: _, [] => true
  | x :: xs, y :: ys => if x > y then true else if x < y then false else lexGt xs ys

/-- C++'s "better viable function" on the rank vectors of two overloads of equal arity: at least
as specific in every parameter and more specific in one -/
def pointwiseGe : List Nat → List Nat → Bool
  | [], [] => true
  | x :: xs, y :: ys => decide (x ≥ y) && pointwiseGe xs ys
  | _, _ => false

def someGt : List Nat → List Nat → Bool
  | x :: xs, y :: ys => decide (x > y) || someGt xs ys
  | _, _ => false

theorem better_lexGt : ∀ (a b : List Nat), pointwiseGe a b = true → someGt a b = true → lexGt a b = true
  | [], [], _, h => by simp [someGt] at h
  | [], _ :: _, h, _ => by simp [pointwiseGe] at h
  | _ :: _, [], h, _ => by simp [pointwiseGe] at h
  | x :: xs, y :: ys, hge, hgt => by
    simp only [pointwiseGe, Bool.and_eq_true, decide_eq_true_eq] at hge
    simp only [someGt, Bool.or_eq_true, decide_eq_true_eq] at hgt
    simp only [lexGt]
    by_cases h1 : x > y
    · simp [h1]
    · have hxy : x = y := by omega
      subst hxy
      simp only [Nat.lt_irrefl, if_false]
      rcases hgt with h | h
      · omega
      · exact better_lexGt xs ys hge.2 h

theorem lexGt_asymm : ∀ (a b : List Nat), lexGt a b = true → lexGt b a = false
  | [], _, h => by simp [lexGt] at h
  | _ :: _, [], _ => by simp [lexGt]
  | x :: xs, y :: ys, h => by
    simp only [lexGt] at h ⊢
    by_cases h1 : x > y
    · have h2 : ¬ y > x := by omega
      have h3 : y < x := h1
      simp [h2, h3]
    · simp only [h1, if_false] at h
      by_cases h2 : x < y
      · simp [h2] at h
      · simp only [h2, if_false] at h
        have e : x = y := by omega
        subst e
        simp only [Nat.lt_irrefl, if_false]
        exact lexGt_asymm xs ys h

/-- **Sorted by specificity ⇒ no better match after a worse one.** If the overloads are emitted
in an order in which no later rank vector is lexicographically greater than an earlier one (what
sorting with `RemapCompareLess` gives for overloads of one arity), then no later overload is a
better match, in C++'s sense, than an earlier one: the hypothesis `hsorted` of
`c02_first_viable_is_best` with `better a b := pointwiseGe ∧ someGt` on the rank vectors. -/
theorem c02_rank_order_gives_hsorted (ranks : Remap → List Nat) (rs : List Remap)
    (hs : rs.Pairwise (fun a b => lexGt (ranks b) (ranks a) = false)) :
    rs.Pairwise (fun a b => ¬ (pointwiseGe (ranks b) (ranks a) = true ∧ someGt (ranks b) (ranks a) = true)) := by
  refine hs.imp ?_
  intro a b hab hbetter
  have := better_lexGt (ranks b) (ranks a) hbetter.1 hbetter.2
  rw [hab] at this
  exact absurd this (by simp)

end IgVerif.C02

namespace IgVerif.C02

/-- `keyword.kwlist` of CPython 3.11 (the check compares this list with the running interpreter's) -/
def python3Keywords : List String :=
  ["False", "None", "True", "and", "as", "assert", "async", "await", "break", "class", "continue", "def", "del", "elif", "else", "except",
   "finally", "for", "from", "global", "if", "import", "in", "is", "lambda", "nonlocal", "not", "or", "pass", "raise", "return", "try", "while", "with", "yield"]

/-- **Every Python keyword is renamed**: the table `checkKeyword` consults, as it stands in the
source now, contains every keyword of Python 3, so no exported name is unusable as an attribute. -/
theorem c02_keywords_cover : Gen.c02ExtractionFailed = false ∧ ∀ k ∈ python3Keywords, k ∈ Gen.c02PythonKeywords := by decide

/-- the ranks of `get_type_sort` order the categories as C++ prefers them: an exact integer match
before a floating-point conversion, strings and classes before numbers -/
theorem c02_rank_facts :
    Gen.c02TypeRanks.lookup "integer" = some 5 ∧ Gen.c02TypeRanks.lookup "double" = some 4 ∧ Gen.c02TypeRanks.lookup "float" = some 3 ∧
    Gen.c02TypeRanks.lookup "string" = some 9 ∧ Gen.c02TypeRanks.lookup "class" = some 20 := by decide

end IgVerif.C02
