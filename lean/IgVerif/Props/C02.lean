import IgVerif.Model.Dispatch
/-!
# C02 — the overload that runs is the one C++ would select
-/
namespace IgVerif.C02
open IgVerif.Dp

/-- wrong argument count never reaches a C++ function -/
theorem c02_arity_gate (sub : Nat → Nat → Bool) (rs : List Remap) (args : List PyV) (r : Remap)
    (h : dispatch sub rs args = some r) : r ∈ rs ∧ r.minArgs ≤ args.length ∧ args.length ≤ r.cats.length ∧ acceptsAll sub r.cats args = true := by
  unfold dispatch at h
  have hm := List.mem_of_find?_eq_some h
  have hp := List.find?_some h
  simp only [viable, Bool.and_eq_true, decide_eq_true_eq] at hp
  exact ⟨hm, hp.1.1, hp.1.2, hp.2⟩

/-- if no overload accepts the arguments the call is refused (`TypeError`), no function runs -/
theorem c02_no_viable_typeerror (sub : Nat → Nat → Bool) (rs : List Remap) (args : List PyV)
    (h : ∀ r ∈ rs, viable sub r args = false) : dispatch sub rs args = none := by
  unfold dispatch
  rw [List.find?_eq_none]
  intro r hr
  simp [h r hr]

/-- **Unique viable overload.** When exactly one overload of the set accepts the arguments — the
case for overload sets whose members differ in some parameter's type category or in arity — that
overload runs, wherever it stands in the emission order. -/
theorem c02_dispatch_unique (sub : Nat → Nat → Bool) (rs : List Remap) (args : List PyV) (w : Remap)
    (hw : w ∈ rs) (hv : viable sub w args = true) (hu : ∀ r ∈ rs, viable sub r args = true → r = w) :
    dispatch sub rs args = some w := by
  unfold dispatch
  induction rs with
  | nil => simp at hw
  | cons x xs ih =>
    simp only [List.find?_cons]
    cases hx : viable sub x args with
    | true =>
      have := hu x (by simp) hx
      simp [this]
    | false =>
      simp only
      have hw' : w ∈ xs := by
        simp only [List.mem_cons] at hw
        rcases hw with rfl | hw
        · rw [hv] at hx; exact absurd hx (by simp)
        · exact hw
      exact ih hw' (fun r hr => hu r (by simp [hr]))

theorem c02_dispatch_order_independent (sub : Nat → Nat → Bool) (rs rs' : List Remap) (args : List PyV) (w : Remap)
    (hp : rs.Perm rs') (hw : w ∈ rs) (hv : viable sub w args = true) (hu : ∀ r ∈ rs, viable sub r args = true → r = w) :
    dispatch sub rs args = dispatch sub rs' args := by
  rw [c02_dispatch_unique sub rs args w hw hv hu,
      c02_dispatch_unique sub rs' args w (hp.mem_iff.mp hw) hv (fun r hr => hu r (hp.mem_iff.mpr hr))]

/-- **Several viable overloads** (e.g. `f(int)` and `f(double)` called with an int): if the
emission order never puts a better match after a worse one, and `w` is better than every other
viable overload, `w` runs.  (`better` is any relation; C++'s is "at least as good a conversion in
every argument and strictly better in one".) -/
theorem c02_first_viable_is_best (sub : Nat → Nat → Bool) (better : Remap → Remap → Prop) (rs : List Remap) (args : List PyV) (w : Remap)
    (hsorted : rs.Pairwise (fun a b => ¬ better b a))
    (hw : w ∈ rs) (hv : viable sub w args = true)
    (hbest : ∀ r ∈ rs, viable sub r args = true → r ≠ w → better w r) :
    dispatch sub rs args = some w := by
  unfold dispatch
  induction rs with
  | nil => simp at hw
  | cons x xs ih =>
    simp only [List.find?_cons]
    rw [List.pairwise_cons] at hsorted
    cases hx : viable sub x args with
    | true =>
      simp only
      by_cases hxw : x = w
      · rw [hxw]
      · -- x is viable, different from w, hence w is better than x; but w comes after x
        have hb := hbest x (by simp) hx hxw
        have hw' : w ∈ xs := by
          simp only [List.mem_cons] at hw
          rcases hw with rfl | hw
          · exact absurd rfl hxw
          · exact hw
        exact absurd hb (hsorted.1 w hw')
    | false =>
      simp only
      have hw' : w ∈ xs := by
        simp only [List.mem_cons] at hw
        rcases hw with rfl | hw
        · rw [hv] at hx; exact absurd hx (by simp)
        · exact hw
      exact ih hsorted.2 hw' (fun r hr => hbest r (by simp [hr]))

-- f(int), f(double), f(str), f(K const &), f(int, int=…): who runs?
private def sub0 : Nat → Nat → Bool := fun d b => d == b || (d == 1 && b == 0)     -- class 1 derives from class 0
private def fi : Remap := ⟨[.int], 1, 1⟩
private def fd : Remap := ⟨[.float], 1, 2⟩
private def fs : Remap := ⟨[.str], 1, 3⟩
private def fk : Remap := ⟨[.obj 0 true], 1, 4⟩
private def fm : Remap := ⟨[.obj 0 false], 1, 5⟩
private def fii : Remap := ⟨[.int, .int], 2, 6⟩      -- no default
example : dispatch sub0 [fi, fd, fs, fk] [.int] = some fi ∧ dispatch sub0 [fi, fd, fs, fk] [.float] = some fd ∧
    dispatch sub0 [fi, fd, fs, fk] [.inst 1 true] = some fk ∧ dispatch sub0 [fi, fd, fs, fk] [.none] = none := by decide
-- a const instance is refused by a non-const parameter, whatever else is in the set
example : dispatch sub0 [fm, fi] [.inst 0 true] = none ∧ dispatch sub0 [fm, fi] [.inst 0 false] = some fm := by decide
example : dispatch sub0 [fii] [.int] = none ∧ dispatch sub0 [⟨[.int, .int], 1, 7⟩] [.int] = some ⟨[.int, .int], 1, 7⟩ := by decide

end IgVerif.C02
