import IgVerif.Model.Wrap
/-!
# C01 — arguments cross handle-style wrappers unchanged; one wrapper per default-argument variant
-/
namespace IgVerif.C01
open IgVerif.Wr

/-- a C++ argument is well-typed for its category -/
def wellTyped : Cat → Val → Bool
  | .simple, .scalar _ => true
  | .pointer, .ptr _ => true
  | .reference, .objAt _ => true
  | .structValue, .objAt _ => true
  | _, _ => false

/-- **Every argument kind the back-end accepts crosses the wrapper without change**: what the
generated call passes on is the value (the same scalar, the same pointer, the same object — not a
copy at another address) the caller meant. -/
theorem c01_argument_crosses (c : Cat) (r : Remap) (v : Val) (hr : remapParameter c = some r) (hv : wellTyped c v = true) :
    passParameter r (toWrapper r v) = v := by
  cases c <;> cases v <;> simp only [remapParameter, wellTyped, Option.some.injEq] at hr hv <;>
    first
    | (subst hr; rfl)
    | exact absurd hv (by simp)
    | exact absurd hr (by simp)

/-- categories without a converter are refused (no wrapper is generated), never passed through -/
theorem c01_unwrappable_refused : remapParameter .other = none := rfl

/-- **Default arguments**: a function with `n` parameters of which the last `d` have defaults gets
exactly the arities `n-d … n`, each once. -/
theorem c01_arities (n d a : Nat) (hd : d ≤ n) : a ∈ wrapperArities n d ↔ (n - d ≤ a ∧ a ≤ n) := by
  simp only [wrapperArities, List.mem_map, List.mem_range]
  constructor
  · rintro ⟨k, hk, rfl⟩; omega
  · rintro ⟨h1, h2⟩; exact ⟨n - a, by omega, by omega⟩

theorem c01_arities_nodup (n d : Nat) (hd : d ≤ n) : (wrapperArities n d).Nodup := by
  unfold wrapperArities List.Nodup
  rw [List.pairwise_map]
  have h : (List.range (d + 1)).Pairwise (· < ·) := List.pairwise_lt_range
  exact h.imp_of_mem (by
    intro a b ha hb hab
    simp only [List.mem_range] at ha hb
    omega)

/-- a wrapper of arity `a` runs the C++ function with its own arguments followed by the declared
defaults of the omitted parameters, i.e. exactly the variant C++ would run for that call -/
theorem c01_forwarded_length (args defaults : List Int) (n : Nat) (h1 : args.length ≤ n) (h2 : n - args.length ≤ defaults.length) :
    (forwarded args defaults n).length = n := by
  simp only [forwarded, List.length_append, List.length_drop]
  omega

example : wrapperArities 3 2 = [3, 2, 1] := by decide
example : forwarded [7] [10, 20] 3 = [7, 10, 20] ∧ forwarded [7, 8] [10, 20] 3 = [7, 8, 20] := by decide

end IgVerif.C01
