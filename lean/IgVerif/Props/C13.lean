import IgVerif.Lemmas.MergeOrder
import IgVerif.Lemmas.ModuleSearch
import IgVerif.Schema
/-!
# C13 — loading several libraries yields one consistent database
-/
namespace IgVerif.C13
open IgVerif

/-- **Global-ness is the union.** However two definitions of a type are merged,
the result is global iff one of them was. -/
theorem c13_global_union (sch : Schema) (fc : FlagCfg) (a b : List Val)
    (ha : HasFlags sch.type a) (hb : HasFlags sch.type b) (hg : fc.typeGlobal ≠ 0) :
    hasFlag sch.type (mergeWith sch fc a b) fc.typeGlobal =
      (hasFlag sch.type a fc.typeGlobal || hasFlag sch.type b fc.typeGlobal) := by
  have hgg : (fc.typeGlobal &&& fc.typeGlobal != 0) = true := by simp [hg]
  unfold mergeWith
  simp only
  split
  · split
    · rename_i h2; rw [hasFlag_orFlag _ _ _ _ ha, hgg]; simp [h2]
    · rename_i h2; simp [h2]
  · split
    · rename_i h2; rw [hasFlag_orFlag _ _ _ _ hb, hgg]; simp [h2]
    · rename_i h2; simp [h2]

/-- **The fully defined definition wins** over a forward reference: its content is
kept (only the global bit may be added). -/
theorem c13_fully_defined_wins (sch : Schema) (fc : FlagCfg) (a b : List Val)
    (ha : hasFlag sch.type a fc.typeFullyDefined = true) (hb : hasFlag sch.type b fc.typeFullyDefined = false) :
    mergeWith sch fc a b = if hasFlag sch.type b fc.typeGlobal then orFlag sch.type a fc.typeGlobal else a := by
  unfold mergeWith
  simp [ha, hb]

/-- … in either load order: a forward reference already present is replaced by
the incoming definition (keeping the global bit). -/
theorem c13_defined_replaces_forward (sch : Schema) (fc : FlagCfg) (a b : List Val)
    (ha : hasFlag sch.type a fc.typeFullyDefined = false) :
    mergeWith sch fc a b = if hasFlag sch.type a fc.typeGlobal then orFlag sch.type b fc.typeGlobal else b := by
  unfold mergeWith
  simp [ha]

/-- **Load order does not matter for a definition and a forward reference**: whichever of the two
libraries is loaded first, the merged type is the same. -/
theorem c13_merge_commutes (sch : Schema) (fc : FlagCfg) (a b : List Val)
    (ha : hasFlag sch.type a fc.typeFullyDefined = true) (hb : hasFlag sch.type b fc.typeFullyDefined = false) :
    mergeWith sch fc a b = mergeWith sch fc b a := by
  rw [c13_fully_defined_wins sch fc a b ha hb, c13_defined_replaces_forward sch fc b a hb]

/-- the flag values read from the current headers satisfy what the order-independence proof
needs: `F_global` is a single bit and differs from `F_fully_defined` -/
theorem c13_flag_facts : MergeCtx schema flagCfg := ⟨⟨0, by decide⟩, by decide⟩

/-- **Any load order, any number of libraries.** One library defines a type fully (`d`), any
number of others only refer to it (`fs`): in whatever order their records are merged the
result is the same record — `d`, global iff one of the contributions was global. -/
theorem c13_merge_order_independent (d : List Val) (fs l1 l2 : List (List Val))
    (h1 : l1.Perm (d :: fs)) (h2 : l2.Perm (d :: fs))
    (hd : hasFlag schema.type d flagCfg.typeFullyDefined = true) (hdf : HasFlags schema.type d)
    (hfs : ∀ f ∈ fs, hasFlag schema.type f flagCfg.typeFullyDefined = false ∧ HasFlags schema.type f) :
    mergeAll schema flagCfg l1 = mergeAll schema flagCfg l2 ∧
    mergeAll schema flagCfg l1 =
      some (canon schema flagCfg d ((d :: fs).any (fun f => hasFlag schema.type f flagCfg.typeGlobal))) := by
  have e1 := mergeAll_perm schema flagCfg c13_flag_facts d fs l1 h1 hd hdf hfs
  have e2 := mergeAll_perm schema flagCfg c13_flag_facts d fs l2 h2 hd hdf hfs
  exact ⟨e1.trans e2.symm, e1⟩

/-! non-vacuity: a definer and a global forward reference, merged in both orders -/
def sampleDef : List Val := setVal schema.type (defaultRec schema.type) "_flags" (.a (.int 8192))
def sampleFwd : List Val := setVal schema.type (defaultRec schema.type) "_flags" (.a (.int 1))
example : hasFlag schema.type sampleDef flagCfg.typeFullyDefined = true ∧
    hasFlag schema.type sampleFwd flagCfg.typeFullyDefined = false ∧
    hasFlag schema.type sampleFwd flagCfg.typeGlobal = true ∧
    mergeAll schema flagCfg [sampleFwd, sampleDef] = mergeAll schema flagCfg [sampleDef, sampleFwd] ∧
    mergeAll schema flagCfg [sampleFwd, sampleDef] = some (orFlag schema.type sampleDef 1) := by decide
example : HasFlags schema.type sampleDef ∧ HasFlags schema.type sampleFwd :=
  ⟨⟨8192, by decide, by decide⟩, ⟨1, by decide, by decide⟩⟩

/-- **Compiled-in modules get their own contiguous range**: a module with `n > 0`
indices receives `[next, next+n)` and the next free index moves up by `n`. -/
theorem c13_module_range (s : St) (d : ModDef) (h : d.next - d.first > 0) :
    (s.rmAssign d).2.first = s.db.nextIndex ∧
    (s.rmAssign d).2.next = s.db.nextIndex + (d.next - d.first) ∧
    (s.rmAssign d).1.db.nextIndex = s.db.nextIndex + (d.next - d.first) := by
  unfold St.rmAssign
  have h' : d.first < d.next := by omega
  simp only [gt_iff_lt, Int.sub_pos, h', if_true]
  exact ⟨trivial, trivial, trivial⟩

/-- **A database file gets its own contiguous range**: read into a temporary
database and re-numbered from the current next index, its entries occupy exactly
`[next, next + size)`, wrappers first. -/
theorem c13_file_range (sch : Schema) (rc : RemapCfg) (temp : Db) (next : Int) :
    (temp.remapIndices sch rc next).1.wrappers.map (·.1) = consec next temp.wrappers.length ∧
    (temp.remapIndices sch rc next).1.nextIndex = next + temp.wrappers.length + temp.functions.length +
      temp.types.length + temp.manifests.length + temp.elements.length + temp.makeSeqs.length :=
  ⟨remapIndices_wrappers sch rc temp next, (remapIndices_ranges sch rc temp next).2.2⟩

/-- **The next free index never moves back**, whatever is requested, looked up or loaded — a file
loaded through a module definition with a reserved range leaves it alone, a plain file moves it
past its own entries, `merge_from` does not touch it.  (Hence no range is ever handed out twice.) -/
theorem c13_next_index_monotone (c : Cfg) (s : St) (op : QOp) :
    s.db.nextIndex ≤ (qstep c s op).db.nextIndex :=
  next_mono_qstep c s op

/-- **Reserved ranges are respected in every reachable state**: the ranges of the registered
modules are in registration order, pairwise disjoint, and all below the next free index — which
is where the next plain file (`c13_file_range`) or the next module (`c13_module_range`) is put. -/
theorem c13_ranges_disjoint (c : Cfg) (ops : List QOp) :
    let s := ops.foldl (qstep c) {}
    (∀ i j, i < j → j < s.modules.length → mnext s.modules i ≤ mfirst s.modules j) ∧
    (∀ i, i < s.modules.length → mfirst s.modules i ≤ mnext s.modules i ∧ mnext s.modules i ≤ s.db.nextIndex) := by
  intro s
  have h := modInv_reachable c ops
  exact ⟨h.ok.ordered, fun i hi => ⟨h.ok.wf i hi, h.below i hi⟩⟩

/-- **Cache coherence for every history** of requests, lookups and other queries. -/
theorem c13_cache_coherent (c : Cfg) (ops : List QOp) : CacheInv c (ops.foldl (qstep c) {}) :=
  cacheInv_reachable c ops

/-- **Lookups reflect all loaded files**, including files requested after a lookup
was answered: in every reachable state a lookup first loads every pending file and
then answers from the current maps. -/
theorem c13_lookup_reflects_all_loaded (c : Cfg) (ops : List QOp) (k : LookupKind) (name : Bytes) :
    let s := ops.foldl (qstep c) {}
    (s.lookup c k name).1.requests = [] ∧
    (s.lookup c k name).2 = (SMap.find ((s.checkLatest c).freshMap c k) name).getD 0 :=
  ⟨lookup_requests c _ k name, lookup_answer c _ k name (c13_cache_coherent c ops)⟩

end IgVerif.C13
