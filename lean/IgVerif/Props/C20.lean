import IgVerif.Lemmas.Query
import IgVerif.Lemmas.ModuleSearch
import IgVerif.Schema
import IgVerif.Gen.C20Guards
/-!
# C20 — the query interface is total and name lookups are exact
-/
namespace IgVerif.C20
open IgVerif

/-! ## positional accessors -/

/-- the translator found the accessor functions -/
theorem c20_guards_extracted : Gen.guardExtractionFailed = false := by decide

/-- every place where the C++ indexes a vector/array with a caller-supplied
position sits under `if (n >= 0 && n < bound)` (re-decided on the current source) -/
theorem c20_all_accessors_guarded : (Gen.accessors.all fun a => a.2.2.2.2) = true := by decide

/-- a guarded accessor returns the neutral value for every out-of-range position … -/
theorem c20_getAt_neutral {α : Type} (l : List α) (n : Int) (d : α) (h : n < 0 ∨ n ≥ (l.length : Int)) :
    getAt l n d = d := by
  unfold getAt
  have : ¬ (n ≥ 0 ∧ n < (l.length : Int)) := by omega
  simp [this]

/-- … and the n-th entry for every valid one; so `count` is exactly the number of
positions at which the accessor returns an entry. -/
theorem c20_getAt_valid {α : Type} (l : List α) (i : Nat) (d : α) (h : i < l.length) :
    getAt l (i : Int) d = l[i] := by
  unfold getAt
  have : ((i : Int) ≥ 0 ∧ (i : Int) < (l.length : Int)) := by omega
  simp [this, h]

/-- an index that names no entry yields the default-constructed (all-neutral) record -/
theorem c20_record_neutral (c : Cfg) (s : St) (k : Kind) (idx : Int) (h : (s.db.map k).find idx = none) :
    s.record c k idx = defaultRec (c.sch.of k) := by
  simp [St.record, h]

/-! ## lookups by name -/

/-- the fresh bits are distinct powers of two, so one `int` mask is a faithful set of kinds -/
theorem c20_lookup_bits :
    Gen.lookupBits.map (·.2) = [1, 2, 4, 8, 16, 32] := by decide

def source (c : Cfg) (s : St) : LookupKind → IMap (List Val) × List Field × String
  | .typeName => (s.db.types, c.sch.type, "_name")
  | .typeScopedName => (s.db.types, c.sch.type, "_scoped_name")
  | .typeTrueName => (s.db.types, c.sch.type, "_true_name")
  | .manifestName => (s.db.manifests, c.sch.manifest, "_name")
  | .elementName => (s.db.elements, c.sch.element, "_name")
  | .elementScopedName => (s.db.elements, c.sch.element, "_scoped_name")

theorem freshMap_source (c : Cfg) (s : St) (k : LookupKind) :
    s.freshMap c k = freshen (source c s k).2.1 (source c s k).1 (source c s k).2.2 := by
  cases k <;> rfl

/-- the state a query operates on: pending database files are loaded first -/
abbrev now (c : Cfg) (s : St) : St := s.checkLatest c

/-- **Sound**: a non-zero answer is the index of an entry bearing exactly that name. -/
theorem c20_lookup_sound (c : Cfg) (s : St) (k : LookupKind) (name : Bytes) (h : CacheInv c s) (i : Int)
    (hi : (s.lookup c k name).2 = i) (hne : i ≠ 0) :
    ∃ r, (i, r) ∈ (source c (now c s) k).1 ∧ getStr (source c (now c s) k).2.1 r (source c (now c s) k).2.2 = name := by
  rw [lookup_answer c s k name h, freshMap_source, freshen_find] at hi
  cases hl : lastBearing (source c (now c s) k).2.1 (source c (now c s) k).2.2 name (source c (now c s) k).1 none with
  | none => rw [hl] at hi; simp at hi; exact absurd hi.symm hne
  | some j =>
    rw [hl] at hi; simp at hi; subst hi
    rcases lastBearing_some _ _ _ _ _ _ hl with h' | h'
    · simp at h'
    · exact h'

/-- **Absent**: a name no entry bears yields 0. -/
theorem c20_lookup_absent (c : Cfg) (s : St) (k : LookupKind) (name : Bytes) (h : CacheInv c s)
    (ha : ∀ p ∈ (source c (now c s) k).1, getStr (source c (now c s) k).2.1 p.2 (source c (now c s) k).2.2 ≠ name) :
    (s.lookup c k name).2 = 0 := by
  rw [lookup_answer c s k name h, freshMap_source, freshen_find, lastBearing_none _ _ _ _ _ ha]
  rfl

/-- **Exact**: when exactly one entry bears the name, the answer is that entry
(in general: the last one in index order). -/
theorem c20_lookup_unique (c : Cfg) (s : St) (k : LookupKind) (name : Bytes) (h : CacheInv c s)
    (l1 l2 : IMap (List Val)) (p : Int × List Val)
    (hsplit : (source c (now c s) k).1 = l1 ++ p :: l2)
    (hp : getStr (source c (now c s) k).2.1 p.2 (source c (now c s) k).2.2 = name)
    (h2 : ∀ q ∈ l2, getStr (source c (now c s) k).2.1 q.2 (source c (now c s) k).2.2 ≠ name) :
    (s.lookup c k name).2 = p.1 := by
  rw [lookup_answer c s k name h, freshMap_source, freshen_find, hsplit,
    lastBearing_append_last _ _ _ _ _ _ _ hp h2]
  rfl

/-! ## the cache invariant holds in every reachable state -/

/-- for every sequence of module requests, lookups and other queries — in
particular files requested after a lookup has been answered — the cached tables
that are marked fresh agree with the current maps -/
theorem c20_cache_inv_reachable (c : Cfg) (ops : List QOp) : CacheInv c (ops.foldl (qstep c) {}) :=
  cacheInv_reachable c ops

/-! ## unique names -/

/-- the search always returns (Lean accepts `bsearchFuel` as structurally
recursive; this says the fuel `length+1` is never exhausted) -/
theorem c20_bsearch_terminates (names : List (Bytes × Int)) (key : Bytes) :
    (bsearchFuel names key (names.length + 1) 0 names.length).isSome = true :=
  bsearchFuel_terminates names key _ _ _ (by omega)

/-- a stored unique name is found … -/
theorem c20_bsearch_found (names : List (Bytes × Int)) (key : Bytes) (off : Int) (hs : SortedNames names)
    (i : Nat) (hi : names[i]? = some (key, off)) : bsearch names key = off :=
  bsearch_found names key off hs i hi

/-- … any other key — of any length or content — yields -1, sorted table or not -/
theorem c20_bsearch_absent (names : List (Bytes × Int)) (key : Bytes) (ha : ∀ p ∈ names, p.1 ≠ key) :
    bsearch names key = -1 :=
  bsearch_absent names key ha

/-- unknown library prefix (which includes every name shorter than 4 bytes unless a
module registered that short hash) → 0 -/
theorem c20_unique_name_unknown_lib (s : St) (name : Bytes)
    (h : s.byHash.find? (fun p => p.1 == name.take 4) = none) : s.wrapperByUniqueName name = 0 := by
  simp [St.wrapperByUniqueName, h]

theorem c20_unique_name_absent (s : St) (name : Bytes) (d : ModDef) (hm : s.byHash.find? (fun p => p.1 == name.take 4) = some (name.take 4, d))
    (ha : ∀ p ∈ d.uniq, p.1 ≠ name.drop 4) : s.wrapperByUniqueName name = 0 := by
  simp [St.wrapperByUniqueName, hm, bsearch_absent d.uniq _ ha]

theorem c20_unique_name_found (s : St) (name : Bytes) (d : ModDef) (off : Int) (i : Nat)
    (hm : s.byHash.find? (fun p => p.1 == name.take 4) = some (name.take 4, d))
    (hs : SortedNames d.uniq) (hi : d.uniq[i]? = some (name.drop 4, off)) (hoff : off ≥ 0) :
    s.wrapperByUniqueName name = d.first + off := by
  simp [St.wrapperByUniqueName, hm, bsearch_found d.uniq _ off hs i hi, hoff]

/-! ## function pointers: `interrogate_wrapper_pointer` answers from the right module's table -/

/-- in every state reachable through the interface the registered modules hold index ranges that
are in registration order, pairwise disjoint, and below the next free index -/
theorem c20_module_ranges (c : Cfg) (ops : List QOp) :
    RangesOk (ops.foldl (qstep c) {}).modules ∧
    ∀ i, i < (ops.foldl (qstep c) {}).modules.length →
      mnext (ops.foldl (qstep c) {}).modules i ≤ (ops.foldl (qstep c) {}).db.nextIndex :=
  ⟨(modInv_reachable c ops).ok, (modInv_reachable c ops).below⟩

/-- **exact**: a wrapper index inside the range of the `i`-th registered module is answered from
that module's pointer table at the offset from the module's first index (whenever the table is that
long), after any history of requests, lookups and other accessors -/
theorem c20_fptr_exact (c : Cfg) (ops : List QOp) (i : Nat) (w : Int)
    (hi : i < (ops.foldl (qstep c) {}).modules.length)
    (hlo : mfirst (ops.foldl (qstep c) {}).modules i ≤ w) (hhi : w < mnext (ops.foldl (qstep c) {}).modules i)
    (hn : w - mfirst (ops.foldl (qstep c) {}).modules i < ((ops.foldl (qstep c) {}).modules.getD i {}).numFptrs) :
    (ops.foldl (qstep c) {}).getFptr w = some (i, w - mfirst (ops.foldl (qstep c) {}).modules i) :=
  getFptr_exact _ (modInv_reachable c ops).ok i hi w hlo hhi hn

/-- **total**: an index that lies in no module's range (negative, zero, between or beyond the
ranges, any 32-bit value) has no pointer — in particular nothing outside the table is read -/
theorem c20_fptr_outside (s : St) (w : Int)
    (hout : ∀ i, i < s.modules.length → w < mfirst s.modules i ∨ mnext s.modules i ≤ w) : s.getFptr w = none :=
  getFptr_outside s w hout

/-- the search itself: on ordered disjoint ranges it returns the module whose range holds the index -/
theorem c20_module_search (mods : List ModDef) (hok : RangesOk mods) (i : Nat) (hi : i < mods.length)
    (w : Int) (hlo : mfirst mods i ≤ w) (hhi : w < mnext mods i) :
    bsearchModule mods w (mods.length + 1) 0 mods.length = i :=
  bsearchModule_finds mods hok i hi w hlo hhi

-- three modules of 2, 3 and 1 wrappers registered one after the other: index 4 belongs to the second
example : (([QOp.request { first := 1, next := 3, numFptrs := 2 }, .request { first := 1, next := 4, numFptrs := 3 },
    .request { first := 1, next := 2, numFptrs := 1 }].foldl (qstep cfg) {}).getFptr 4) = some (1, 1) := by decide

/-! ## non-vacuity -/

example : SortedNames [([97], 0), ([98, 98], 1), ([99], 2)] := by decide

example : bsearch [([97], 0), ([98, 98], 1), ([99], 2)] [98] = -1 := by decide
example : bsearch [([98, 98, 98, 98], 0), ([100, 100, 100, 100], 1)] [99, 99, 99, 99] = -1 := by decide

end IgVerif.C20
