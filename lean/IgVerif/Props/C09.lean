import IgVerif.Lemmas.Cond
import IgVerif.Model.CondC
import IgVerif.Gen.C09Cmds
import IgVerif.Lemmas.SkipScan
/-!
# C09 — conditional inclusion keeps exactly the groups a conforming preprocessor keeps
-/
namespace IgVerif.C09
open IgVerif.Cond

/-- **Refinement.** For every well-nested arrangement of `#if/#ifdef/#ifndef`,
`#elif/#elifdef/#elifndef`, `#else`, `#endif` — any depth, any length, any
conditions, any directives in the groups — interrogate's stack-free skipper keeps
exactly the markers and performs exactly the effects of the nested-group
semantics (first true condition wins, at most one group per conditional). -/
theorem c09_refines {Env : Type} (env : Env) (p : Blocks Env) :
    run none env (flattenBs p) = specBs env p :=
  run_refines env p

/-- **Skipped groups have no effect at all**: whatever a skipped group contains
(markers, defines, includes, `#error`, nested conditionals), the machine leaves it
with the environment it entered with and without output. -/
theorem c09_skipped_no_effect {Env : Type} (k : Bool) (l : Nat) (env : Env) (bs : Blocks Env) (rest : List (Dir Env)) :
    run (some (k, l)) env (flattenBs bs ++ rest) = run (some (k, l)) env rest :=
  skipBs k l env rest bs

/-- **At most one group, the first true one**: once a group has been taken the rest
of the conditional contributes nothing. -/
theorem c09_after_taken_group {Env : Type} (env : Env) (r : Tail Env) (rest : List (Dir Env)) :
    run none env (flattenT r ++ rest) = run none env rest :=
  doneT env rest r

/-- undefined identifiers count as 0 and `defined` is 1/0 -/
theorem c09_undefined_is_zero (env : MEnv) (s : String) (h : env.macros.find? (fun p => p.1 == s) = none) :
    resolve env (.ident s) = .int 0 := by
  simp only [resolve, MEnv.value]
  unfold MEnv.valueFuel
  simp [h]

/-! ## the directive dispatch as the source has it now -/

theorem c09_extraction_ok : Gen.c09ExtractionFailed = false := by decide

/-- while active: the three `#if` forms test; `#else` and every `#elif` form skip to
the matching `#endif` *ignoring* further `#elif`s; `#endif` does nothing -/
theorem c09_active_dispatch : Gen.activeTable =
    [("ifdef", "handle_ifdef_directive(args, loc);"), ("ifndef", "handle_ifndef_directive(args, loc);"),
     ("if", "handle_if_directive(args, loc);"), ("else", "skip_false_if_block(false);"),
     ("elif", "skip_false_if_block(false);"), ("elifdef", "skip_false_if_block(false);"),
     ("elifndef", "skip_false_if_block(false);"), ("endif", "")] := by decide

/-- while skipping: the three `#if` forms nest; `#else` / `#elif*` act only at level 0
and only when `#elif`s are still being considered; `#endif` resumes at level 0 -/
theorem c09_skip_dispatch : Gen.skipTable =
    [("if", "level++;"), ("ifdef", "level++;"), ("ifndef", "level++;"),
     ("else", "if (level == 0 && consider_elifs) { _save_comments = true; return; }"),
     ("elif", "if (level == 0 && consider_elifs) { _save_comments = true; handle_if_directive(args, loc); return; }"),
     ("elifdef", "if (level == 0 && consider_elifs) { _save_comments = true; handle_ifdef_directive(args, loc); return; }"),
     ("elifndef", "if (level == 0 && consider_elifs) { _save_comments = true; handle_ifndef_directive(args, loc); return; }"),
     ("endif", "if (level == 0) { _save_comments = true; return; } level--;")] := by decide +kernel

theorem c09_handlers : Gen.handlerTable =
    [("handle_ifdef_directive", "if (!is_manifest_defined(args)) { skip_false_if_block(true); }"),
     ("handle_ifndef_directive", "if (is_manifest_defined(args)) { skip_false_if_block(true); }"),
     ("handle_if_directive.tail", "if (expression_result) { return; } skip_false_if_block(true);")] ∧
    Gen.skipInit = "int level = 0; _save_comments = false; int c = skip_comment(get());" := by decide +kernel

/-! ## non-vacuity: three nesting levels, a taken `#elifdef`, a define in a kept group -/

def demo : Blocks MEnv :=
  .cons (.eff (effDefine "A" 1))
  (.cons (.cond (condExpr (.bin .eq (.ident "A") (.int 2)))
      (.cons (.text 1) (.cons (.eff effError) .nil))
      (.elif (condIfdef "A")
        (.cons (.text 2) (.cons (.cond (condIfndef "B") (.cons (.eff (effDefine "B" 7)) (.cons (.cond (condExpr (.ident "B")) (.cons (.text 3) .nil) .endif) .nil)) (.els (.cons (.text 4) .nil))) .nil))
        (.els (.cons (.text 5) .nil))))
  (.cons (.text 6) .nil))

example : (specBs {} demo).2 = [2, 3, 6] ∧ (specBs {} demo).1.errors = 0 := by decide
example : (run none ({} : MEnv) (flattenBs demo)).2 = [2, 3, 6] := by decide

/-! ## the text of a skipped group (`Model/SkipScan.lean`: `skip_false_if_block` character by character) -/
open IgVerif.Skip in
/-- **String literals in skipped text are opaque.** Two skipped groups that differ only in
the text of a string literal (no quote, newline or backslash in it) end at the same place:
a `/*`, `//`, `#endif` or `#else` inside the literal is not seen. -/
theorem c09_string_text_irrelevant (fuel level : Nat) (sol : Bool) (body1 body2 post : List Nat)
    (h1 : ∀ c ∈ body1, c ≠ 34 ∧ c ≠ 10 ∧ c ≠ 92) (h2 : ∀ c ∈ body2, c ≠ 34 ∧ c ≠ 10 ∧ c ≠ 92) :
    skipGroup (fuel + 1) level ⟨some 34, sol, body1 ++ 34 :: post⟩ =
      skipGroup (fuel + 1) level ⟨some 34, sol, body2 ++ 34 :: post⟩ := by
  rw [skipGroup_string fuel level sol body1 post h1, skipGroup_string fuel level sol body2 post h2]

open IgVerif.Skip in
/-- **Block comments in skipped text are opaque**: whatever a comment contains — directive
names, `#`, quotes, `//`, line breaks — scanning resumes behind its `*/` in one and the same
state. -/
theorem c09_comment_text_irrelevant (fuel : Nat) (sol : Bool) (body1 body2 post : List Nat)
    (h1 : noClose body1 = true) (h2 : noClose body2 = true) :
    skipComment (fuel + 1) ⟨some 47, sol, 42 :: (body1 ++ 42 :: 47 :: post)⟩ =
      skipComment (fuel + 1) ⟨some 47, sol, 42 :: (body2 ++ 42 :: 47 :: post)⟩ := by
  rw [skipComment_block fuel sol body1 post h1, skipComment_block fuel sol body2 post h2]
  have e : ∀ (b : List Nat) (s : Bool), (b ++ [42, 47]).foldl solAfter s = false := by
    intro b s
    rw [List.foldl_append]
    simp only [List.foldl_cons, List.foldl_nil]
    generalize List.foldl solAfter s b = x
    cases x <;> decide
  rw [e, e]

open IgVerif.Skip in
/-- **`#endif` at the start of a line ends the skipped group** at nesting level 0, whatever
follows it; one level down it closes the inner conditional only; `#if` opens one. -/
theorem c09_endif_ends_group (fuel level : Nat) (post : List Nat) :
    skipGroup (fuel + 1) 0 ⟨some 35, true, [101, 110, 100, 105, 102, 10] ++ post⟩ = (.endif, ⟨some 10, true, post⟩) ∧
    skipGroup (fuel + 1) (level + 1) ⟨some 35, true, [101, 110, 100, 105, 102, 10] ++ post⟩ = skipGroup fuel level ⟨some 10, true, post⟩ ∧
    skipGroup (fuel + 1) level ⟨some 35, true, [105, 102, 32, 49, 10] ++ post⟩ = skipGroup fuel (level + 1) ⟨some 10, true, post⟩ :=
  ⟨skipGroup_endif fuel post, skipGroup_endif_nested fuel level post, skipGroup_if_nested fuel level post⟩

open IgVerif.Skip in
/-- **`#else` ends the skipped group only at its own level, and only a `#` that begins its line is
a directive**: at nesting level 0 `#else` ends the group; inside a nested conditional it is passed
over with the level unchanged; a `#` in the middle of a line is ordinary text. -/
theorem c09_else_and_midline_hash (fuel level : Nat) (post : List Nat) :
    skipGroup (fuel + 1) 0 ⟨some 35, true, [101, 108, 115, 101, 10] ++ post⟩ = (.els, ⟨some 10, true, post⟩) ∧
    skipGroup (fuel + 1) (level + 1) ⟨some 35, true, [101, 108, 115, 101, 10] ++ post⟩ = skipGroup fuel (level + 1) ⟨some 10, true, post⟩ ∧
    skipGroup (fuel + 1) level ⟨some 35, false, post⟩ = skipGroup fuel level (skipComment (post.length + 1) (get false post)) :=
  ⟨skipGroup_else fuel post, skipGroup_else_nested fuel level post, skipGroup_hash_midline fuel level post⟩

-- `"/*"` in a skipped group used to swallow the `#endif`; `#` alone on a line used to take the next line
example : (Skip.skipFalseIfBlock (Skip.word "s = \"/*\";\n#endif\nint k;\n")).1 = .endif := by decide
example : (Skip.skipFalseIfBlock (Skip.word "#\nendif\nint lost;\n#endif\nint k;\n")).2.rest = Skip.word "int k;\n" := by decide
-- a nested #if … #else … #endif inside the skipped group, then the group's own #else; `x # endif` is text
example : (Skip.skipFalseIfBlock [35, 105, 102, 32, 49, 10, 35, 101, 108, 115, 101, 10, 35, 101, 110, 100, 105, 102, 10, 120, 32, 35, 32, 101, 110, 100, 105, 102, 10, 35, 101, 108, 115, 101, 10, 107]).1 = .els := by decide

end IgVerif.C09
