import IgVerif.Lemmas.DbFile
import IgVerif.Model.ConfB
import IgVerif.Schema
/-!
# C12 — database files round-trip exactly; older 3.x files stay readable

Property theorems only (helper lemmas live in `Lemmas/`).  `schema` is the layout
extracted from the current C++ source, so `c12_mirror`, `c12_schema_wf` and
`c12_copy_complete` are re-decided by the kernel against what the code says now.
-/
namespace IgVerif.C12
open IgVerif

/-- the translator understood every `output()`/`input()` body -/
theorem c12_extraction_ok : Gen.dbSchemaExtractionFailed = false := by decide

/-- Every count that an `input()` body reads into a local and then uses as a loop bound or a
`reserve()` size either starts from an initialiser or is followed by a look at the stream state:
on a truncated file (the stream already failed, so `>>` stores nothing) no loop runs on an
indeterminate count.  The list is extracted from the source on every run. -/
theorem c12_counts_guarded : Gen.unguardedCounts = [] := by decide

/-- `input()` reads exactly the fields `output()` writes, in the same order, for
all six record kinds and the three sub-record kinds -/
theorem c12_mirror : (mergeSchema Gen.outSchema Gen.inSchema).isSome = true := by decide

/-- every number is followed by whitespace where another token follows, every
string separator is whitespace, and no field is gated on a future minor version -/
theorem c12_schema_wf : SchemaWF schema = true := by decide

/-- fields written by `output()` are preserved when a record is copied into the
database's maps (`add_type` etc. copy the record that was just read) -/
theorem c12_copy_complete : copyComplete = true := by decide

/-- **Round trip.** Loading the bytes `write` produces yields exactly the database
written — for all names, comments, prototypes and definitions (any bytes at all)
— and raises the error flag only for an identifier mismatch. -/
theorem c12_roundtrip (f : DbFile) (hc : FileConf curMinor schema f) (expectId : Int) :
    load schema expectId (encFile schema f) =
      { errorFlag := expectId != 0 && f.fileId != expectId, merged := some f } :=
  load_encFileAs curMinor (Nat.le_refl _) schema c12_schema_wf f hc expectId

/-- re-serialising what was loaded gives identical bytes -/
theorem c12_reserialise (f g : DbFile) (hc : FileConf curMinor schema f) (e : Int)
    (h : (load schema e (encFile schema f)).merged = some g) :
    encFile schema g = encFile schema f := by
  rw [c12_roundtrip f hc e] at h
  simp at h
  rw [h]

/-- **Older minor formats.** A file in format 3.m (m ≤ 3) loads to exactly the
database that was written, the fields that format lacks holding their default 0
(that is what `FileConf m` says of them). -/
theorem c12_old_minor (m : Nat) (hm : m ≤ curMinor) (f : DbFile) (hc : FileConf m schema f)
    (expectId : Int) :
    load schema expectId (encFileAs m schema f) =
      { errorFlag := expectId != 0 && f.fileId != expectId, merged := some f } :=
  load_encFileAs m hm schema c12_schema_wf f hc expectId

/-- **Version gate.** A different major version or a newer minor version is
flagged and nothing is merged, whatever follows the header. -/
theorem c12_version_gate (sch : Schema) (bytes r : Bytes) (id maj min e : Int)
    (hh : decHeader bytes = .ok ((id, maj, min), r)) (hv : maj ≠ curMajor ∨ min > (curMinor : Int)) :
    load sch e bytes = { errorFlag := true, merged := none } := by
  unfold load
  rw [hh]
  have : (maj != curMajor || decide (min > (curMinor : Int))) = true := by
    cases hv with
    | inl h => simp [h]
    | inr h => simp [h]
  simp [this]

/-- **Identifier mismatch** is always reported through the error flag. -/
theorem c12_id_mismatch_flagged (sch : Schema) (bytes r : Bytes) (id maj min e : Int)
    (hh : decHeader bytes = .ok ((id, maj, min), r)) (he : e ≠ 0) (hne : id ≠ e) :
    (load sch e bytes).errorFlag = true := by
  unfold load
  rw [hh]
  have : (e != 0 && id != e) = true := by simp [he, hne]
  simp only [this]
  split
  · rfl
  · split <;> rfl

/-- **Never half-merged.** Whenever anything is merged the whole body decoded,
and the error flag can then only stem from the identifier check; a file whose
header does not parse is flagged. -/
theorem c12_merge_only_complete (sch : Schema) (bytes : Bytes) (e : Int) (g : DbFile)
    (h : (load sch e bytes).merged = some g) :
    ∃ id maj min r r', decHeader bytes = .ok ((id, maj, min), r) ∧ maj = curMajor ∧
      min ≤ (curMinor : Int) ∧ decBody sch min.toNat id r = .ok (g, r') := by
  unfold load at h
  split at h
  · simp at h
  · rename_i id maj min r hh
    split at h
    · simp at h
    · rename_i hv
      split at h
      · simp at h
      · simp at h
      · rename_i f r' hb
        simp at h
        subst h
        simp only [Bool.or_eq_true, bne_iff_ne, ne_eq, decide_eq_true_eq, not_or, Decidable.not_not, Int.not_lt] at hv
        exact ⟨id, maj, min, r, r', by assumption, hv.1, hv.2, hb⟩

theorem c12_bad_header_flagged (sch : Schema) (bytes : Bytes) (e : Int) (x : Err)
    (h : decHeader bytes = .error x) : load sch e bytes = { errorFlag := true, merged := none } := by
  unfold load; rw [h]

/-! ## Non-vacuity: a concrete database with awkward strings meets `FileConf`. -/

def sampleType : List Val :=
  [.a (.str [65, 32, 10, 34, 255]), .strs [[], [32, 32]], .a (.int 4194304), .a (.str []), .a (.str [0x80, 0xFF]),
   .a (.int 0), .a (.int 0), .a (.int 7), .a (.int 3), .ints [5, -1], .a (.int 0), .ints [], .ints [2], .ints [],
   .ints [], .recs [[.int 1, .int 7, .int 0, .int (-2147483648)]],
   .recs [[.str [97], .str [], .str [10, 10], .int 2147483647]], .ints [], .a (.str [47, 42, 10])]

def sampleFile : DbFile :=
  { fileId := 1234567, lib := [108], hash := [], mod := [109, 32, 109],
    functions := [], wrappers := [], types := [(7, sampleType)], manifests := [], elements := [], makeSeqs := [] }

example : FileConf curMinor schema sampleFile := fileConfB_sound (by decide)
example : load schema 1234567 (encFile schema sampleFile) = { errorFlag := false, merged := some sampleFile } :=
  c12_roundtrip sampleFile (fileConfB_sound (by decide)) 1234567

end IgVerif.C12
