import IgVerif.Lemmas.Names
/-!
# C03 — wrapper symbols and unique names are distinct, valid identifiers
-/
namespace IgVerif.C03
open IgVerif.Nm

/-- a signature / library hash is always four characters of `[A-Za-z0-9_]` -/
theorem c03_hash_alphabet (name : List Nat) (off : Nat) :
    (hashString name off).length = 4 ∧ ∀ c ∈ hashString name off, identChar c = true :=
  hashString_valid name off

/-- `clean_identifier` yields only alphanumerics and `_` -/
theorem c03_clean_valid (name : List Nat) : ∀ c ∈ cleanIdentifier name, okByte c = true :=
  cleanLoop_chars name false

/-- **Fresh.** Whatever hashes collided before, the hash handed to a new signature is
not in use, and existing ones stay in use (names are never recycled). -/
theorem c03_assign_fresh (m : HMap) (sig : Sig) (m' : HMap) (h : List Char) (ha : assign m sig = (m', some h)) :
    m.has h = false ∧ m'.has h = true ∧ ∀ k, m.has k = true → m'.has k = true :=
  assign_fresh m sig m' h ha

/-- **Distinct.** For every sequence of signatures — including adversarial ones whose
24-bit hashes all collide — the hashes handed out are pairwise distinct; hence so are
the wrapper symbols and unique names (prefix + library hash + this hash). -/
theorem c03_assign_distinct (sigs : List Sig) (m : HMap) :
    (assignAll m sigs).Pairwise (fun a b => a.isSome = true → a ≠ b) :=
  assignAll_pairwise sigs m

/-- **Total.** A symbol is always found: the search over `a`…`z`, `26`, `27`, … cannot fail, because
among `n+1` pairwise different candidates at most `n` are in use (pigeonhole); only a signature that
is already registered under its own hash is refused (the generator's "Function signature repeated"
abort). -/
theorem c03_assign_total (m : HMap) (sig : Sig) (hrep : m.find (hashString sig 5) ≠ some (some sig)) :
    ∃ h, (assign m sig).2 = some h :=
  assign_total m sig hrep

/-! ## non-vacuity / tests by evaluation -/

-- two signatures that collide under both shift offsets (characters 24 apart swapped)
def sigA : Sig := "abcdefghijklmnopqrstuvwxyz0(int)".toList.map Char.toNat
def sigB : Sig := "ybcdefghijklmnopqrstuvwxaz0(int)".toList.map Char.toNat
example : hashString sigA 5 = hashString sigB 5 ∧ hashString sigA 11 = hashString sigB 11 ∧ sigA ≠ sigB := by decide
example : (assignAll [] [sigA, sigB]).map (Option.map List.length) = [some 4, some 9] := by decide

end IgVerif.C03
