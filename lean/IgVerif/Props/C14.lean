import IgVerif.Lemmas.Determinism
import IgVerif.Gen.C14Facts
/-!
# C14 — output is a pure function of the inputs
-/
namespace IgVerif.C14
open IgVerif.Det

/-- the facts read from the current source are the ones the model was written for -/
theorem c14_extraction_ok : Gen.c14ExtractionFailed = false ∧ Gen.c14TieBreakBySignature = true ∧
    Gen.c14CompareSteps = ["const", "arity", "rank", "sig"] ∧ Gen.c14EpochShape = "nonempty->atoi|else->time" := by decide

private def le (a b : Remap) : Bool := !remapLess b a

private theorem le_trans (a b c : Remap) (h1 : le a b = true) (h2 : le b c = true) : le a c = true := by
  simp only [le, remapLess, Bool.not_eq_true'] at *
  exact lexLe_trans (key a) (key b) (key c) h1 h2

private theorem le_total (a b : Remap) : (le a b || le b a) = true := by
  simp only [le, remapLess]
  cases h : lexLt (key b) (key a) with
  | false => simp
  | true => simp [lexLt_asymm _ _ h]

private theorem le_antisymm (a b : Remap) (h1 : le a b = true) (h2 : le b a = true) : a = b := by
  simp only [le, remapLess, Bool.not_eq_true'] at h1 h2
  exact key_injective_on_sig a b (lexLt_tri (key a) (key b) h2 h1)

/-- **The order of the overloads in the generated code does not depend on the order in which the
pointer-keyed set hands them out**: for every two orders of the same remaps (any permutation, i.e.
any heap layout) sorting with `RemapCompareLess` gives the same sequence. -/
theorem c14_order_independent (xs ys : List Remap) (h : xs.Perm ys) :
    emitOrder remapLess xs = emitOrder remapLess ys := by
  unfold emitOrder
  apply List.Perm.eq_of_pairwise (le := fun a b => le a b = true)
  · intro a b _ _ hab hba
    exact le_antisymm a b hab hba
  · exact List.pairwise_mergeSort (le := le) le_trans le_total xs
  · exact List.pairwise_mergeSort (le := le) le_trans le_total ys
  · exact ((List.mergeSort_perm xs le).trans h).trans (List.mergeSort_perm ys le).symm

/-- `RemapCompareLess` is a strict weak ordering (what `std::sort` requires): irreflexive,
asymmetric, transitive, and incomparability is equality of remaps. -/
theorem c14_strict_weak (a b c : Remap) :
    remapLess a a = false ∧ (remapLess a b = true → remapLess b a = false) ∧
    (remapLess a b = true → remapLess b c = true → remapLess a c = true) ∧
    (remapLess a b = false → remapLess b a = false → a = b) :=
  ⟨lexLt_irrefl _, lexLt_asymm _ _, lexLt_trans _ _ _, fun h1 h2 => key_injective_on_sig a b (lexLt_tri _ _ h1 h2)⟩

/-- without the tie-break two overloads of equal rank come out in the order they went in:
`f(A *)`, `f(B *)` — the defect that was repaired -/
theorem c14_old_order_dependent :
    let a : Remap := ⟨false, [3], [65]⟩
    let b : Remap := ⟨false, [3], [66]⟩
    emitOrder remapLessOld [a, b] ≠ emitOrder remapLessOld [b, a] := by
  simp [emitOrder, List.mergeSort, List.MergeSort.Internal.splitInTwo, List.merge, remapLessOld, keyOld, lexLt]

/-- **With `SOURCE_DATE_EPOCH` set (non-empty) the file identifier does not depend on the clock.** -/
theorem c14_id_epoch (c : Nat) (cs : List Nat) (now now' : Int) : fileId (some (c :: cs)) now = fileId (some (c :: cs)) now' := rfl

/-- unset or empty: the clock -/
theorem c14_id_clock (now : Int) : fileId none now = now ∧ fileId (some []) now = now := ⟨rfl, rfl⟩

/-- `SOURCE_DATE_EPOCH=0` means identifier 0, not "unset" -/
theorem c14_id_zero (now : Int) : fileId (some [48]) now = 0 := by
  show atoi [48] = 0
  decide

example : atoi [32, 49, 50, 120] = 12 ∧ atoi [45, 53] = -5 ∧ atoi [97] = 0 := by decide
end IgVerif.C14
