import IgVerif.Model.Scan
/-!
# C15 — the hand-written scanners are total
-/
namespace IgVerif.C15
open IgVerif.Scan

theorem compareTail_ok (str delim : List Nat) (h : delim.length ≤ str.length) : compareTail str delim ≠ .throws := by
  simp [compareTail, h]

theorem rawLoop_safe (delim : List Nat) : ∀ (cs str : List Nat), rawLoop delim cs str ≠ .throws := by
  intro cs
  induction cs with
  | nil => intro str; simp [rawLoop]
  | cons c cs ih =>
    intro str
    simp only [rawLoop]
    split
    · split
      · rename_i hlen
        have hc := compareTail_ok str delim hlen
        cases hcmp : compareTail str delim with
        | throws => exact absurd hcmp hc
        | ok b => cases b <;> simp [ih]
      · exact ih _
    · exact ih _

/-- **`scan_raw` never indexes out of range**: for every byte string following `R"` the scanner
returns a string (closed or not); `std::string::compare` is never called with a start position
beyond the end. -/
theorem c15_scan_raw_total (input : List Nat) : scanRaw input ≠ .throws := by
  unfold scanRaw
  exact rawLoop_safe _ _ _

/-- what went wrong before the fix: `R"(")"` — the first quote arrives while the string is shorter
than the delimiter -/
theorem c15_scan_raw_old_counterexample : rawLoopOld [41] [34, 41, 34] [] = .throws := by decide

/-- a well-formed literal `R"x(ab)x"` yields its body and reports the closing quote -/
example : scanRaw [120, 40, 97, 98, 41, 120, 34, 59] = .ok ([97, 98], true) := by decide
example : scanRaw [40, 34, 41, 34] = .ok ([34], true) := by decide      -- R"(")"
example : scanRaw [40, 97] = .ok ([97], false) := by decide              -- unclosed

/-- **Every expansion step shrinks the set of macros that may still be expanded** — the measure
that makes `expandObj` (and `expand_manifests`, as long as the ignore set is handed down) terminate
on every macro table, cyclic ones included.  (`expandObj` is defined by well-founded recursion on
this measure; Lean would not accept the definition otherwise.) -/
theorem c15_expand_measure (table : Table) (ignores : List String) (n : String) (body : List Tok)
    (h : lookup table n = some body) (hi : ignores.contains n = false) :
    live table (n :: ignores) < live table ignores :=
  live_lt table ignores n body h hi

/-- cyclic object-like macros: `#define A B`, `#define B A` — `A` expands to `A` and stops -/
example : expandObj [("A", [.ident "B"]), ("B", [.ident "A"])] [] [.ident "A", .other ";"] = [.ident "A", .other ";"] := by
  simp [expandObj, lookup]
example : expandObj [("R", [.ident "G"]), ("G", [.ident "B"]), ("B", [.ident "R", .other "+", .ident "G"])] [] [.ident "R"]
    = [.ident "R", .other "+", .ident "G"] := by
  simp [expandObj, lookup]

end IgVerif.C15
