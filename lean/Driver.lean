import IgVerif.Schema
import IgVerif.Model.ConfB
import IgVerif.Model.Closed
import IgVerif.Model.ModuleOrder
import IgVerif.Gen.C19Proto
import IgVerif.Model.Expr
import IgVerif.Model.CondC
import IgVerif.Model.Path
import IgVerif.Model.Float
import IgVerif.Gen.C18Powers
import IgVerif.Model.Names
import IgVerif.Model.CType
import IgVerif.Model.Scope
import IgVerif.Model.Traits
import IgVerif.Model.Scan
import IgVerif.Model.Determinism
import IgVerif.Model.Macro
import IgVerif.Model.Export
import IgVerif.Model.Comments
import IgVerif.Model.Wrap
import IgVerif.Model.Dispatch
import IgVerif.Model.Literal
import IgVerif.Model.EnumVal
import IgVerif.Model.CharLit
import IgVerif.Model.SkipScan
import IgVerif.Model.Expand
/-! `igdriver <model>`: reads one op per line on stdin, prints one answer per line.
Byte strings are hex ("-" = empty). -/
open IgVerif

def hexVal (c : Char) : Nat :=
  if '0' ≤ c ∧ c ≤ '9' then c.toNat - 48
  else if 'a' ≤ c ∧ c ≤ 'f' then c.toNat - 87
  else if 'A' ≤ c ∧ c ≤ 'F' then c.toNat - 55 else 0

def unhex (s : String) : Bytes :=
  if s == "-" then [] else
  let rec go : List Char → Bytes
    | a :: b :: rest => (hexVal a * 16 + hexVal b) :: go rest
    | _ => []
  go s.toList

def hexDigit (n : Nat) : Char := if n < 10 then Char.ofNat (48 + n) else Char.ofNat (87 + n)

def hex (b : Bytes) : String :=
  if b.isEmpty then "-" else
  String.ofList (b.flatMap fun x => [hexDigit ((x / 16) % 16), hexDigit (x % 16)])

def fnv (b : Bytes) : String :=
  let h := b.foldl (fun (h : UInt64) x => (h ^^^ (UInt64.ofNat x)) * 1099511628211) 14695981039346656037
  s!"{b.length}:{h.toNat}"

def parseInt (s : String) : Int := s.toInt?.getD 0

def readFileBytes (path : String) : IO (Option Bytes) := do
  try
    let ba ← IO.FS.readBinFile path
    return some (ba.toList.map (·.toNat))
  catch _ => return none

def lookupKind : String → Option LookupKind
  | "type_name" => some .typeName | "type_scoped_name" => some .typeScopedName
  | "type_true_name" => some .typeTrueName | "manifest_name" => some .manifestName
  | "element_name" => some .elementName | "element_scoped_name" => some .elementScopedName
  | _ => none

def enumList (s : St) : String → Option (List Int)
  | "global_types" => some s.db.globalTypes | "all_types" => some s.db.allTypes
  | "global_functions" => some s.db.globalFunctions | "all_functions" => some s.db.allFunctions
  | "global_manifests" => some s.db.globalManifests | "global_elements" => some s.db.globalElements
  | _ => none

def parseUniq : List String → List (Bytes × Int)
  | a :: b :: rest => (unhex a, parseInt b) :: parseUniq rest
  | _ => []

def srcOf (p : String) : IO DbSource := do
  if p == "~" then return .none
  if p == "!missing" then return .missing
  match ← readFileBytes p with
  | some b => return .bytes b
  | none => return .missing

/-- one op on the database state machine -/
def dbStep (s : St) (toks : List String) : IO (St × String) := do
  let c := cfg
  match toks with
  | ["reset"] => return ({}, "ok")
  | ["reqfile", path] =>
    let src ← srcOf path
    return (s.requestModule { src := src }, "ok")
  | "reqmod" :: fid :: lib :: hash :: first :: nxt :: nf :: path :: _n :: rest =>
    let src ← srcOf path
    let d : ModDef := { fileId := parseInt fid, hasLib := lib != "~", hash := unhex hash, first := parseInt first,
                        next := parseInt nxt, uniq := parseUniq rest, numFptrs := parseInt nf, src := src }
    return (s.requestModule d, "ok")
  | ["err"] =>
    return (s, if s.errorFlag then "1" else "0")
  | ["next"] => return (s, toString s.db.nextIndex)
  | ["q", what, kind, idx, member] =>
    match Kind.ofString kind with
    | none => return (s, "bad-op")
    | some k =>
      let s := s.checkLatest c
      let r := s.record c k (parseInt idx)
      let sp := c.sch.of k
      match what with
      | "int" => return (s, toString (getInt sp r member))
      | "str" => return (s, hex (getStr sp r member))
      | "cnt" =>
        match findVal sp r member with
        | some (.ints l) => return (s, toString l.length)
        | some (.strs l) => return (s, toString l.length)
        | some (.recs l) => return (s, toString l.length)
        | _ => return (s, "bad-op")
      | "flag" => return (s, if hasFlag sp r (maskOf (kind ++ "." ++ member)) then "1" else "0")
      | _ => return (s, "bad-op")
  | ["q", "at", kind, idx, member, pos] =>
    match Kind.ofString kind with
    | none => return (s, "bad-op")
    | some k =>
      let s := s.checkLatest c
      let r := s.record c k (parseInt idx)
      let sp := c.sch.of k
      match findVal sp r member with
      | some (.ints l) => return (s, toString (getAt l (parseInt pos) 0))
      | some (.strs l) => return (s, hex (getAt l (parseInt pos) []))
      | _ => return (s, "bad-op")
  | ["q", "sub", kind, idx, member, pos, sm] =>
    match Kind.ofString kind with
    | none => return (s, "bad-op")
    | some k =>
      let s := s.checkLatest c
      let r := s.record c k (parseInt idx)
      let sp := c.sch.of k
      let sub := subSpec sp member
      let rec_ := getAt (getRecs sp r member) (parseInt pos) []
      match sub.find? (fun a => atomName a == sm) with
      | some (.int _ _) => return (s, toString (subInt sub rec_ sm))
      | some (.str _ _) => return (s, hex (subStr sub rec_ sm))
      | none => return (s, "bad-op")
  | ["lookup", lk, name] =>
    match lookupKind lk with
    | none => return (s, "bad-op")
    | some k =>
      let (s, i) := s.lookup c k (unhex name)
      return (s, toString i)
  | ["enumcnt", which] =>
    let s := s.checkLatest c
    match enumList s which with
    | some l => return (s, toString l.length)
    | none => return (s, "bad-op")
  | ["enum", which, n] =>
    let s := s.checkLatest c
    match enumList s which with
    | some l => return (s, toString (getAt l (parseInt n) 0))
    | none => return (s, "bad-op")
  | ["uniq", name] => return (s, toString (s.wrapperByUniqueName (unhex name)))
  | ["fptr", idx] =>
    match s.getFptr (parseInt idx) with
    | some (mi, off) => return (s, s!"{mi}:{off}")
    | none => return (s, "none")
  | ["write", fid, lib, hash, mod] =>
    let s := s.checkLatest c
    let f := s.db.toFile (parseInt fid) (unhex lib) (unhex hash) (unhex mod)
    return (s, fnv (encFile c.sch f))
  | ["writehex", fid, lib, hash, mod] =>
    let s := s.checkLatest c
    let f := s.db.toFile (parseInt fid) (unhex lib) (unhex hash) (unhex mod)
    return (s, hex (encFile c.sch f))
  | ["conf", fid, lib, hash, mod] =>
    -- does the current database meet the hypothesis of the round-trip theorem?
    let s := s.checkLatest c
    let f := s.db.toFile (parseInt fid) (unhex lib) (unhex hash) (unhex mod)
    return (s, if fileConfB curMinor c.sch f then "1" else "0")
  | ["sweepall", _, _] => return (s, "ok")
  | ["closed"] =>
    let s := s.checkLatest c
    return (s, s!"dangling={(s.db.danglingRefs c.sch Gen.indexMembers).length} enum={s.db.danglingEnums.length}")
  | ["consec", first] =>
    let s := s.checkLatest c
    return (s, if consecutiveFrom (parseInt first) (s.db.wrappers.map (·.1)) then "1" else "0")
  | ["links"] =>
    let s := s.checkLatest c
    let b (x : Bool) := if x then "1" else "0"
    return (s, s!"wrapper={b (s.db.wrapperLinksB c.sch)} nesting={b (s.db.nestingLinksB c.sch)} unique={b (s.db.uniqueNamesDistinctB c.sch)} seqs={b (s.db.makeSeqLinksB c.sch)} this={b (s.db.thisLinksB c.sch)}")
  | ["remap", first] =>
    let s := s.checkLatest c
    let (db, _) := s.db.remapIndices c.sch c.rc (parseInt first)
    return ({ s with db := db }, toString db.nextIndex)
  | _ => return (s, "bad-op")

partial def loop {σ : Type} (h : IO.FS.Stream) (step : σ → List String → IO (σ × String)) (s : σ) : IO Unit := do
  let line ← h.getLine
  if line.isEmpty then return ()
  let toks := (line.trimAscii.toString.splitOn " ").filter (· != "")
  let (s', out) ← step s toks
  IO.println out
  loop h step s'

/-- `order a:b,c;b:;c:d` -/
def parseDeps (s : String) : MO.Deps :=
  let entries := (s.splitOn ";").filter (· != "")
  let raw := entries.map fun e =>
    match e.splitOn ":" with
    | [k, v] => (k, (v.splitOn ",").filter (· != ""))
    | [k] => (k, [])
    | _ => ("", [])
  -- build through the map operations so that keys and sets are ordered as std::map / std::set order them
  raw.foldl (fun (d : MO.Deps) p => p.2.foldl (fun d b => d.addEdge p.1 b) (d.touch p.1)) []

def orderStep (_ : Unit) (toks : List String) : IO (Unit × String) := do
  match toks with
  | ["order", g] =>
    let r := MO.order (parseDeps g)
    let br := ",".intercalate (r.broken.map fun p => p.1 ++ ">" ++ p.2)
    return ((), s!"libs={",".intercalate r.libs} broken={br} finished={if r.finished then 1 else 0}")
  | ["order"] =>
    return ((), "libs= broken= finished=1")
  | _ => return ((), "bad-op")

/-- all schedules over {0,1,2} of the given length -/
def allScheds : Nat → List (List Nat)
  | 0 => [[]]
  | n+1 => (allScheds n).flatMap fun s => [0 :: s, 1 :: s, 2 :: s]

def protoStep (_ : Unit) (toks : List String) : IO (Unit × String) := do
  let pick : String → Option OP.Proto
    | "interrogate" => some Gen.interrogateProto
    | "module" => some Gen.moduleProto
    | _ => none
  match toks with
  | ["proto", which] =>
    match pick which with
    | none => return ((), "bad-op")
    | some p =>
      -- search the model for a schedule that loses data and still exits 0
      let silent := (allScheds 7).find? fun s => let o := OP.run p s; o.lost && !o.exitNonZero
      let sil := match silent with
        | some s => ",".intercalate (s.map toString)
        | none => "none"
      return ((), s!"wellChecked={if OP.wellChecked p then 1 else 0} silentLoss={sil} stmts={p.body.length}")
  | ["run", which, sched] =>
    match pick which with
    | none => return ((), "bad-op")
    | some p =>
      let o := OP.run p ((sched.splitOn ",").filterMap (·.toNat?))
      return ((), s!"exitNonZero={if o.exitNonZero then 1 else 0} lost={if o.lost then 1 else 0}")
  | _ => return ((), "bad-op")

/-! expression s-expressions: `(int 5)` `(bool 1)` `(unknown)` `(un minus E)` `(bin add E E)` `(tern E E E)` `(cast short E)` -/
def unOpOf : String → Option Ex.UnOp
  | "lnot" => some .lnot | "bnot" => some .bnot | "minus" => some .minus | "plus" => some .plus | _ => none
def binOpOf : String → Option Ex.BinOp
  | "mul" => some .mul | "div" => some .div | "mod" => some .mod | "add" => some .add | "sub" => some .sub
  | "shl" => some .shl | "shr" => some .shr | "lt" => some .lt | "gt" => some .gt | "le" => some .le | "ge" => some .ge
  | "eq" => some .eq | "ne" => some .ne | "band" => some .band | "bxor" => some .bxor | "bor" => some .bor
  | "land" => some .land | "lor" => some .lor | "comma" => some .comma | _ => none
def castOf : String → Option Ex.CastTo
  | "bool" => some .bool | "int" => some .int | "short" => some .short | "ushort" => some .ushort | "char" => some .char
  | "schar" => some .schar | "uchar" => some .uchar | "uint" => some .uint | "long" => some .long | "ulong" => some .ulong | _ => none

def parseSexpr : Nat → List String → Option (Ex.Expr × List String)
  | 0, _ => none
  | fuel+1, "(" :: "int" :: n :: ")" :: rest => some (.int (n.toInt?.getD 0), rest)
  | fuel+1, "(" :: "bool" :: n :: ")" :: rest => some (.bool (n != "0"), rest)
  | fuel+1, "(" :: "unknown" :: ")" :: rest => some (.unknown, rest)
  | fuel+1, "(" :: "un" :: op :: rest =>
    match unOpOf op, parseSexpr fuel rest with
    | some o, some (e, ")" :: rest') => some (.un o e, rest')
    | _, _ => none
  | fuel+1, "(" :: "cast" :: k :: rest =>
    match castOf k, parseSexpr fuel rest with
    | some o, some (e, ")" :: rest') => some (.cast o e, rest')
    | _, _ => none
  | fuel+1, "(" :: "bin" :: op :: rest =>
    match binOpOf op, parseSexpr fuel rest with
    | some o, some (a, rest1) =>
      match parseSexpr fuel rest1 with
      | some (b, ")" :: rest2) => some (.bin o a b, rest2)
      | _ => none
    | _, _ => none
  | fuel+1, "(" :: "tern" :: rest =>
    match parseSexpr fuel rest with
    | some (c, rest1) =>
      match parseSexpr fuel rest1 with
      | some (a, rest2) =>
        match parseSexpr fuel rest2 with
        | some (b, ")" :: rest3) => some (.tern c a b, rest3)
        | _ => none
      | none => none
    | none => none
  | _, _ => none

def exprStep (_ : Unit) (toks : List String) : IO (Unit × String) := do
  match toks with
  | "eval" :: rest =>
    match parseSexpr (rest.length + 1) rest with
    | some (e, []) =>
      let r := match Ex.evaluate e with
        | .int v => s!"int {v}"
        | .error => "error"
      let c := match Ex.cxxEval e with
        | some v => s!"some {v}"
        | none => "none"
      return ((), s!"evaluate={r} cxx={c}")
    | _ => return ((), "bad-op")
  | _ => return ((), "bad-op")

/-! conditional-inclusion programs: directives separated by `;`:
`if SEXPR` `ifdef N` `ifndef N` `elif SEXPR` `elifdef N` `elifndef N` `else` `endif` `define N V` `undef N` `error` `include K` `text K`;
expression s-expressions as for `eval`, plus `( ident N )` and `( defined N )`. -/
def parseCE : Nat → List String → Option (Cond.CE × List String)
  | 0, _ => none
  | _+1, "(" :: "int" :: n :: ")" :: rest => some (.int (n.toInt?.getD 0), rest)
  | _+1, "(" :: "ident" :: n :: ")" :: rest => some (.ident n, rest)
  | _+1, "(" :: "defined" :: n :: ")" :: rest => some (.defined n, rest)
  | fuel+1, "(" :: "un" :: op :: rest =>
    match unOpOf op, parseCE fuel rest with
    | some o, some (e, ")" :: rest') => some (.un o e, rest')
    | _, _ => none
  | fuel+1, "(" :: "bin" :: op :: rest =>
    match binOpOf op, parseCE fuel rest with
    | some o, some (a, rest1) =>
      match parseCE fuel rest1 with
      | some (b, ")" :: rest2) => some (.bin o a b, rest2)
      | _ => none
    | _, _ => none
  | fuel+1, "(" :: "tern" :: rest =>
    match parseCE fuel rest with
    | some (c, rest1) =>
      match parseCE fuel rest1 with
      | some (a, rest2) =>
        match parseCE fuel rest2 with
        | some (b, ")" :: rest3) => some (.tern c a b, rest3)
        | _ => none
      | none => none
    | none => none
  | _, _ => none

def parseDir (toks : List String) : Option (Cond.Dir Cond.MEnv) :=
  match toks with
  | "if" :: rest => (parseCE (rest.length + 1) rest).map fun p => .ifc (Cond.condExpr p.1)
  | "elif" :: rest => (parseCE (rest.length + 1) rest).map fun p => .elifc (Cond.condExpr p.1)
  | ["ifdef", n] => some (.ifc (Cond.condIfdef n))
  | ["ifndef", n] => some (.ifc (Cond.condIfndef n))
  | ["elifdef", n] => some (.elifc (Cond.condIfdef n))
  | ["elifndef", n] => some (.elifc (Cond.condIfndef n))
  | ["else"] => some .elsec
  | ["endif"] => some .endif
  | ["define", n, v] => some (.eff (Cond.effDefine n (v.toInt?.getD 0)))
  | ["alias", n, t] => some (.eff (Cond.effAlias n t))
  | ["undef", n] => some (.eff (Cond.effUndef n))
  | ["error"] => some (.eff Cond.effError)
  | ["include", k] => some (.eff (Cond.effInclude (k.toNat?.getD 0)))
  | ["text", k] => some (.text (k.toNat?.getD 0))
  | _ => none

def splitOnTok (toks : List String) (sep : String) : List (List String) :=
  let r := toks.foldl (fun (acc : List (List String) × List String) t =>
    if t == sep then (acc.1 ++ [acc.2], []) else (acc.1, acc.2 ++ [t])) ([], [])
  (r.1 ++ [r.2]).filter (fun l => !l.isEmpty)

def condStep (_ : Unit) (toks : List String) : IO (Unit × String) := do
  match toks with
  | "cond" :: rest =>
    let dirs := (splitOnTok rest ";").map parseDir
    if dirs.any Option.isNone then return ((), "bad-op")
    let prog := dirs.filterMap id
    let out := Cond.run none ({} : Cond.MEnv) prog
    let kept := ",".intercalate (out.2.map toString)
    let incs := ",".intercalate (out.1.includes.map toString)
    return ((), s!"kept={kept} errors={out.1.errors} includes={incs}")
  | _ => return ((), "bad-op")

def pathOfString (s : String) : Path.P :=
  { global := s.startsWith "/", comps := (s.splitOn "/").filter (· != "") }

def pathToString (p : Path.P) : String :=
  (if p.global then "/" else "") ++ "/".intercalate p.comps

def bytesToString (b : Bytes) : String := String.ofList (b.map fun n => Char.ofNat n)
def stringToBytes (s : String) : Bytes := s.toList.map (·.toNat)

def pathStep (_ : Unit) (toks : List String) : IO (Unit × String) := do
  match toks with
  | ["std", h] =>
    let p := pathOfString (bytesToString (unhex h))
    return ((), hex (stringToBytes (pathToString (Path.stdC p))))
  | ["std2", h] =>
    let p := pathOfString (bytesToString (unhex h))
    return ((), hex (stringToBytes (pathToString (Path.stdC (Path.stdC p)))))
  | ["abs", h, c] =>
    -- make_absolute(start): a relative name is placed under `start`, then standardized
    let s := bytesToString (unhex h)
    let full := if s.startsWith "/" then s else bytesToString (unhex c) ++ "/" ++ s
    return ((), hex (stringToBytes (pathToString (Path.stdC (pathOfString full)))))
  | _ => return ((), "bad-op")

def floatStep (_ : Unit) (toks : List String) : IO (Unit × String) := do
  match toks with
  | ["dtoa", b] =>
    let bits := b.toNat?.getD 0
    let neg := bits ≥ 2 ^ 63
    let s := Fl.pdtoa Gen.cachedPowers (bits % 2 ^ 63)
    return ((), (if neg then "-" else "") ++ String.ofList s)
  | ["strtod", h] =>
    let s := (bytesToString (unhex h)).toList
    match Fl.scanDecimal s with
    | some (m, e) => return ((), toString (Fl.rneDec m e))
    | none => return ((), "none")
  | _ => return ((), "bad-op")

def namesStep (m : Nm.HMap) (toks : List String) : IO (Nm.HMap × String) := do
  match toks with
  | ["reset"] => return ([], "ok")
  | ["hash", h, off] => return (m, String.ofList (Nm.hashString (unhex h) (off.toNat?.getD 5)))
  | ["clean", h] => return (m, hex (Nm.cleanIdentifier (unhex h)))
  | ["assign", h] =>
    let r := Nm.assign m (unhex h)
    return (r.1, match r.2 with | some x => String.ofList x | none => "none")
  | _ => return (m, "bad-op")

/-! ### ctype / scope -/
def optName (s : String) : Option String := if s == "-" then none else some (bytesToString (unhex s))
def optNat (s : String) : Option Nat := if s == "-" then none else s.toNat?

mutual
def parseCT : Nat → List String → Option (CT.CType × List String)
  | 0, _ => none
  | fuel+1, toks =>
    match toks with
    | "B" :: h :: rest => some (.base (bytesToString (unhex h)), rest)
    | "C" :: rest => (parseCT fuel rest).map fun p => (.const p.1, p.2)
    | "P" :: rest => (parseCT fuel rest).map fun p => (.ptr p.1, p.2)
    | "L" :: rest => (parseCT fuel rest).map fun p => (.lref p.1, p.2)
    | "R" :: rest => (parseCT fuel rest).map fun p => (.rref p.1, p.2)
    | "A" :: n :: rest => (parseCT fuel rest).map fun p => (.arr p.1 (optNat n), p.2)
    | "F" :: v :: k :: rest =>
      match parseCT fuel rest with
      | some (r, rest1) =>
        match parseCPs fuel (k.toNat?.getD 0) rest1 with
        | some (ps, rest2) => some (.fn r ps (v == "1"), rest2)
        | none => none
      | none => none
    | _ => none
def parseCPs : Nat → Nat → List String → Option (CT.CParams × List String)
  | 0, _, _ => none
  | _, 0, toks => some (.nil, toks)
  | fuel+1, k+1, toks =>
    match toks with
    | nm :: rest =>
      match parseCT fuel rest with
      | some (t, rest1) =>
        match parseCPs fuel k rest1 with
        | some (ps, rest2) => some (.cons t (optName nm) ps, rest2)
        | none => none
      | none => none
    | [] => none
end

def parseCD : Nat → List String → Option (CT.CDecl × List String)
  | 0, _ => none
  | fuel+1, toks =>
    match toks with
    | "n" :: h :: rest => some (.name (optName h), rest)
    | "p" :: c :: rest => (parseCD fuel rest).map fun p => (.ptr (c == "1") p.1, p.2)
    | "l" :: rest => (parseCD fuel rest).map fun p => (.lref p.1, p.2)
    | "r" :: rest => (parseCD fuel rest).map fun p => (.rref p.1, p.2)
    | "(" :: rest => (parseCD fuel rest).map fun p => (.paren p.1, p.2)
    | "a" :: n :: rest => (parseCD fuel rest).map fun p => (.arr p.1 (optNat n), p.2)
    | "f" :: v :: k :: rest =>
      match parseCD fuel rest with
      | some (d, rest1) =>
        match parseCPs fuel (k.toNat?.getD 0) rest1 with
        | some (ps, rest2) => some (.fn d ps (v == "1"), rest2)
        | none => none
      | none => none
    | _ => none

def tokText : CT.Tok → String
  | .ident s => s | .star => "*" | .amp => "&" | .ampamp => "&&" | .kconst => "const" | .lp => "(" | .rp => ")"
  | .lb => "[" | .rb => "]" | .num n => toString n | .comma => "," | .ellipsis => "..."

def ctypeStep (_ : Unit) (toks : List String) : IO (Unit × String) := do
  match toks with
  | "print" :: nm :: rest =>
    match parseCT (rest.length + 1) rest with
    | some (t, []) =>
      let out := CT.oi t [] (CT.nameToks (optName nm))
      return ((), s!"wf={CT.WF t} " ++ " ".intercalate (out.map tokText))
    | _ => return ((), "bad-op")
  | "decl" :: nm :: rest =>
    -- decl <name> <base type> <concrete declarator> <expected type>: parse (unroll) then print
    match parseCT (rest.length + 1) rest with
    | some (b, rest1) =>
      match parseCD (rest1.length + 1) rest1 with
      | some (cd, rest2) =>
        match parseCT (rest2.length + 1) rest2 with
        | some (expect, []) =>
          let t := CT.unroll (CT.mods cd) b
          let out := CT.oi t [] (CT.nameToks (optName nm))
          return ((), s!"wf={CT.WF t} same={t.beq expect} " ++ " ".intercalate (out.map tokText))
        | _ => return ((), "bad-op")
      | none => return ((), "bad-op")
    | none => return ((), "bad-op")
  | _ => return ((), "bad-op")

mutual
def parseScope : Nat → List String → Option (Sc.Scope × List String)
  | 0, _ => none
  | fuel+1, toks =>
    match toks with
    | "S" :: nt :: rest =>
      match parseTypes (nt.toNat?.getD 0) rest with
      | some (types, nu :: rest1) =>
        match parseScopes fuel (nu.toNat?.getD 0) rest1 with
        | some (us, nb :: rest2) =>
          match parseScopes fuel (nb.toNat?.getD 0) rest2 with
          | some (bs, rest3) => some (.mk types us bs, rest3)
          | none => none
        | _ => none
      | _ => none
    | _ => none
def parseScopes : Nat → Nat → List String → Option (List Sc.Scope × List String)
  | 0, _, _ => none
  | _, 0, toks => some ([], toks)
  | fuel+1, k+1, toks =>
    match parseScope fuel toks with
    | some (s, rest) =>
      match parseScopes fuel k rest with
      | some (ss, rest2) => some (s :: ss, rest2)
      | none => none
    | none => none
def parseTypes : Nat → List String → Option (List (String × Nat) × List String)
  | 0, toks => some ([], toks)
  | k+1, nm :: e :: rest => (parseTypes k rest).map fun p => ((nm, e.toNat?.getD 0) :: p.1, p.2)
  | _, _ => none
end

def scopeStep (_ : Unit) (toks : List String) : IO (Unit × String) := do
  match toks with
  | "find" :: nm :: k :: rest =>
    match parseScopes (rest.length + 1) (k.toNat?.getD 0) rest with
    | some (chain, []) => return ((), match Sc.findType chain nm with | some e => toString e | none => "none")
    | _ => return ((), "bad-op")
  | _ => return ((), "bad-op")

/-! ### traits -/
def parseSM (s : String) : Option Tr.SM :=
  match s.toList with
  | [v, m, vi, pu] => some { vis := v.toNat - 48, deleted := m == 'x', defaulted := m == 'd', virt := vi == 'v', pure := pu == 'p' }
  | _ => none

def parseVD (s : String) : Tr.VDecl :=
  match s.splitOn ":" with
  | [a, b, c] => ⟨a.toNat?.getD 0, b == "1", c == "1", false⟩
  | _ => ⟨0, false, false, false⟩

mutual
def parseCls : Nat → List String → Option (Tr.Cls × List String)
  | 0, _ => none
  | fuel+1, toks =>
    match toks with
    | "K" :: nb :: rest =>
      match parseBases fuel (nb.toNat?.getD 0) rest with
      | some (bases, dc :: oc :: cc :: mc :: dt :: ma :: nf :: rest1) =>
        match parseFields fuel (nf.toNat?.getD 0) rest1 with
        | some (fields, nv :: rest2) =>
          let k := nv.toNat?.getD 0
          some (.mk bases (parseSM dc) (oc != "-") (parseSM cc) (parseSM mc) (parseSM dt) (ma != "-") fields ((rest2.take k).map parseVD), rest2.drop k)
        | _ => none
      | _ => none
    | _ => none
def parseBases : Nat → Nat → List String → Option (Tr.Bases × List String)
  | 0, _, _ => none
  | _, 0, toks => some (.nil, toks)
  | fuel+1, k+1, toks =>
    match parseCls fuel toks with
    | some (c, vis :: virt :: rest) =>
      match parseBases fuel k rest with
      | some (bs, rest2) => some (.cons c (vis.toNat?.getD 0) (virt == "1") bs, rest2)
      | none => none
    | _ => none
def parseFields : Nat → Nat → List String → Option (Tr.Fields × List String)
  | 0, _, _ => none
  | _, 0, toks => some (.nil, toks)
  | fuel+1, k+1, toks =>
    match toks with
    | code :: rest =>
      match code.toList with
      | [kind, ini, st] =>
        let init := ini == '1'
        let stat := st == 's'
        if kind == 'k' then
          match parseCls fuel rest with
          | some (c, rest1) =>
            match parseFields fuel k rest1 with
            | some (fs, rest2) => some (.cons (.cls c stat) fs, rest2)
            | none => none
          | none => none
        else
          let f : Tr.FieldK := if kind == 'i' then .int init stat else if kind == 'c' then .cint init stat else .ref
          match parseFields fuel k rest with
          | some (fs, rest2) => some (.cons f fs, rest2)
          | none => none
      | _ => none
    | [] => none
end

def b01 (b : Bool) : String := if b then "1" else "0"

def traitsStep (_ : Unit) (toks : List String) : IO (Unit × String) := do
  match toks with
  | "traits" :: rest =>
    match parseCls (rest.length + 1) rest with
    | some (c, []) =>
      return ((), s!"abstract={b01 (Tr.isAbstract c)} default={b01 (Tr.isDefault c)} copy={b01 (Tr.isCopy c)} destructible={b01 (Tr.isDestructible c)} polymorphic={b01 (Tr.isPolymorphic c)}")
    | _ => return ((), "bad-op")
  | _ => return ((), "bad-op")

/-! ### scan -/
def parseTok (s : String) : Scan.Tok :=
  if s.startsWith "i:" then .ident (s.drop 2).toString else .other (s.drop 2).toString

def parseTable : Nat → List String → Option (Scan.Table × List String)
  | 0, toks => some ([], toks)
  | k+1, name :: n :: rest =>
    let nb := n.toNat?.getD 0
    (parseTable k (rest.drop nb)).map fun p => ((name, (rest.take nb).map parseTok) :: p.1, p.2)
  | _, _ => none

def tokOut : Scan.Tok → String
  | .ident s => s
  | .other s => s

def scanStep (_ : Unit) (toks : List String) : IO (Unit × String) := do
  match toks with
  | ["raw", h] =>
    match Scan.scanRaw (unhex h) with
    | .throws => return ((), "throws")
    | .ok (body, closed) => return ((), s!"ok closed={b01 closed} {hex body}")
  | "expand" :: k :: rest =>
    match parseTable (k.toNat?.getD 0) rest with
    | some (table, _n :: ts) => return ((), " ".intercalate ((Scan.expandObj table [] (ts.map parseTok)).map tokOut))
    | _ => return ((), "bad-op")
  | _ => return ((), "bad-op")

/-! ### det -/
def detStep (_ : Unit) (toks : List String) : IO (Unit × String) := do
  match toks with
  | ["fileid", sde, now] =>
    let s : Option (List Nat) := if sde == "unset" then none else some (unhex sde)
    return ((), toString (Det.fileId s (parseInt now)))
  | _ => return ((), "bad-op")

/-! ### macro -/
def macroStep (_ : Unit) (toks : List String) : IO (Unit × String) := do
  match toks with
  | ["stringify", h] =>
    let src := unhex h
    return ((), s!"wl={b01 (Mac.wellLexed Mac.SState.init src)} {hex (Mac.stringify src)}")
  | "expand" :: names :: variadic :: body :: args =>
    -- expand <name,name,…|-> <index of the variadic parameter|-> <body hex> <argument hex>*
    let ns := if names == "-" then [] else (names.splitOn ",").map unhex
    let v := variadic.toNat?
    let r := Exp.expandOnce ns v (unhex body) (args.map (fun a => if a == "-" then [] else unhex a))
    return ((), if r.isEmpty then "-" else hex r)
  | _ => return ((), "bad-op")

/-! ### export -/
def setAttr (d : Ex4.Decl) (kv : String) : Ex4.Decl :=
  match kv.splitOn "=" with
  | [k, v] =>
    let b := v == "1"
    match k with
    | "template" => { d with template := b } | "cfile" => { d with cFile := b } | "local" => { d with localFile := b }
    | "vis" => { d with vis := v.toNat?.getD 0 } | "static" => { d with isStatic := b } | "deleted" => { d with deleted := b }
    | "invprot" => { d with involvesProtected := b } | "ignoreinvolved" => { d with ignoreInvolved := b } | "ignoremember" => { d with ignoreMember := b }
    | "rvalue" => { d with rvalueRef := b } | "fnlike" => { d with functionLike := b } | "scoped" => { d with scopedDecl := b }
    | "dtor" => { d with isDestructor := b } | "getclasstype" => { d with getClassType := b } | "inhpub" => { d with inheritedPublished := b }
    | "anymember" => { d with anyMemberExported := b } | "global" => { d with isGlobal := b } | "untyped" => { d with untyped := b }
    | _ => d
  | _ => d

def exportStep (_ : Unit) (toks : List String) : IO (Unit × String) := do
  match toks with
  | "export" :: kind :: mv :: attrs =>
    let d := attrs.foldl setAttr ({} : Ex4.Decl)
    let cfg : Ex4.Cfg := ⟨mv.toNat?.getD 0⟩
    let gs := match kind with
      | "function" => some Ex4.functionGates | "method" => some Ex4.methodGates | "struct" => some Ex4.structGates
      | "enum" => some Ex4.enumGates | "manifest" => some Ex4.manifestGates | "element" => some Ex4.elementGates | _ => none
    match gs with
    | some g => return ((), b01 (Ex4.passes g cfg d))
    | none => return ((), "bad-op")
  | _ => return ((), "bad-op")

/-! ### comments -/
def commentsStep (_ : Unit) (toks : List String) : IO (Unit × String) := do
  match toks with
  | "claim" :: n :: rest =>
    let k := n.toNat?.getD 0
    let cs : List Cm.Comment := (rest.take k).map fun t => ⟨t.toNat?.getD 0, 0⟩
    let lines := (rest.drop k).map fun t => t.toNat?.getD 0
    let log := Cm.claimAll cs lines
    return ((), " ".intercalate (log.map fun p => s!"{p.1}:" ++ (match p.2 with | some i => toString i | none => "-")))
  | _ => return ((), "bad-op")

/-! ### wrap -/
def wrapStep (_ : Unit) (toks : List String) : IO (Unit × String) := do
  match toks with
  | ["remap", cat] =>
    let c : Option Wr.Cat := match cat with
      | "simple" => some .simple | "pointer" => some .pointer | "reference" => some .reference | "struct" => some .structValue
      | "void" => some .voidT | "other" => some .other | _ => none
    match c with
    | some c => return ((), match Wr.remapParameter c with
        | some .unchanged => "unchanged" | some .referenceToPointer => "pointer-to-referee" | some .concreteToPointer => "pointer-to-object" | none => "refused")
    | none => return ((), "bad-op")
  | ["arities", n, d] => return ((), " ".intercalate ((Wr.wrapperArities (n.toNat?.getD 0) (d.toNat?.getD 0)).map toString))
  | _ => return ((), "bad-op")

/-! ### dispatch -/
def parsePCat (s : String) : Dp.PCat :=
  match s.splitOn ":" with
  | ["int"] => .int | ["float"] => .float | ["str"] => .str
  | ["obj", c, k] => .obj (c.toNat?.getD 0) (k == "1")
  | _ => .str

def parsePyV (s : String) : Dp.PyV :=
  match s.splitOn ":" with
  | ["int"] => .int | ["float"] => .float | ["str"] => .str | ["none"] => .none
  | ["inst", c, k] => .inst (c.toNat?.getD 0) (k == "1")
  | _ => .none

/-- `dispatch <nclasses> <parent of class i | ->... <nremaps> (tag minArgs ncats cats...)... <nargs> args...` -/
def dispatchStep (_ : Unit) (toks : List String) : IO (Unit × String) := do
  match toks with
  | "dispatch" :: nc :: rest =>
    let k := nc.toNat?.getD 0
    let parents : List (Option Nat) := (rest.take k).map fun t => t.toNat?
    let rec anc (fuel : Nat) (d b : Nat) : Bool :=
      match fuel with
      | 0 => false
      | f + 1 => d == b || (match (parents.getD d none) with | some p => anc f p b | none => false)
    let sub := anc (k + 1)
    let rec remaps (n : Nat) (ts : List String) (fuel : Nat) : List Dp.Remap × List String :=
      match fuel, n, ts with
      | 0, _, _ => ([], ts)
      | _, 0, _ => ([], ts)
      | f + 1, n + 1, tag :: mn :: ncat :: more =>
        let c := ncat.toNat?.getD 0
        let r : Dp.Remap := ⟨(more.take c).map parsePCat, mn.toNat?.getD 0, tag.toNat?.getD 0⟩
        let (rs, left) := remaps n (more.drop c) f
        (r :: rs, left)
      | _, _, _ => ([], ts)
    match rest.drop k with
    | nr :: more =>
      let (rs, left) := remaps (nr.toNat?.getD 0) more (more.length + 1)
      match left with
      | _na :: args =>
        return ((), match Dp.dispatch sub rs (args.map parsePyV) with | some r => toString r.tag | none => "TypeError")
      | [] => return ((), match Dp.dispatch sub rs [] with | some r => toString r.tag | none => "TypeError")
    | [] => return ((), "bad-op")
  | _ => return ((), "bad-op")

/-! ### lit -/
def litStep (_ : Unit) (toks : List String) : IO (Unit × String) := do
  match toks with
  | ["chr", h] => return ((), toString (Chr.charValue (unhex h)))
  | ["skip", h] =>
    let r := Skip.skipFalseIfBlock (unhex h)
    let e := match r.1 with | .eof => "eof" | .els => "else" | .elif => "elif" | .elifdef => "elifdef" | .elifndef => "elifndef" | .endif => "endif"
    let left := (match r.2.c with | some c => [c] | none => []) ++ r.2.rest
    return ((), s!"{e} {hex left}")
  | ["lit", h] =>
    match Lit.getNumber (unhex h) with
    | some (v, k, rest) =>
      let ks := match k with | .hex => "hex" | .bin => "bin" | .oct => "oct" | .dec => "dec"
      return ((), s!"{v} {ks} {hex rest}")
    | none => return ((), "none")
  | _ => return ((), "bad-op")

/-- `enum - l5 s10 a10+2 -`: enumerators without initialiser (`-`), with a literal (`l`), with an
opaque expression of the given value (`s`), with `expr + literal` (`a`) -/
def enumStep (_ : Unit) (toks : List String) : IO (Unit × String) := do
  match toks with
  | "enum" :: items =>
    let step := fun (acc : List (Option EnumVal.Ex) × List Int) (t : String) =>
      let body := (t.drop 1).toString
      if t == "-" then (acc.1 ++ [none], acc.2)
      else if t.startsWith "l" then (acc.1 ++ [some (.lit body.toInt!)], acc.2)
      else if t.startsWith "s" then (acc.1 ++ [some (.sym acc.2.length)], acc.2 ++ [body.toInt!])
      else match body.splitOn "+" with
        | [a, b] => (acc.1 ++ [some (.add (.sym acc.2.length) (.lit b.toInt!))], acc.2 ++ [a.toInt!])
        | _ => acc
    let (gs, env) := items.foldl step ([], [])
    let ρ := fun i => env.getD i 0
    let vals := (EnumVal.elements none gs).map (EnumVal.Ex.eval ρ)
    return ((), " ".intercalate (vals.map toString))
  | _ => return ((), "bad-op")

def main (args : List String) : IO UInt32 := do
  let stdin ← IO.getStdin
  match args with
  | ["db"] => loop stdin dbStep ({} : St); return 0
  | ["order"] => loop stdin orderStep (); return 0
  | ["proto"] => loop stdin protoStep (); return 0
  | ["expr"] => loop stdin exprStep (); return 0
  | ["cond"] => loop stdin condStep (); return 0
  | ["path"] => loop stdin pathStep (); return 0
  | ["float"] => loop stdin floatStep (); return 0
  | ["names"] => loop stdin namesStep ([] : Nm.HMap); return 0
  | ["ctype"] => loop stdin ctypeStep (); return 0
  | ["scope"] => loop stdin scopeStep (); return 0
  | ["traits"] => loop stdin traitsStep (); return 0
  | ["scan"] => loop stdin scanStep (); return 0
  | ["det"] => loop stdin detStep (); return 0
  | ["macro"] => loop stdin macroStep (); return 0
  | ["export"] => loop stdin exportStep (); return 0
  | ["comments"] => loop stdin commentsStep (); return 0
  | ["wrap"] => loop stdin wrapStep (); return 0
  | ["dispatch"] => loop stdin dispatchStep (); return 0
  | ["lit"] => loop stdin litStep (); return 0
  | ["enum"] => loop stdin enumStep (); return 0
  | _ => IO.eprintln "usage: igdriver <model>"; return 2
