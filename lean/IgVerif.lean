import IgVerif.Model.Bytes
