import IgVerif.Model.Bytes
import IgVerif.Lemmas.CType
import IgVerif.Model.Scope
import IgVerif.Props.C06
import IgVerif.Lemmas.Traits
import IgVerif.Props.C10
import IgVerif.Model.Scan
import IgVerif.Props.C15
