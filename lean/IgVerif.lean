import IgVerif.Model.Bytes
import IgVerif.Lemmas.CType
import IgVerif.Model.Scope
import IgVerif.Props.C06
