#define M0(p0, p1) p0 x1 # p1
#define M1(p0) M0 ( p0 0 , p0 M0 ( 0 0 beta p0 alpha ) ) 0 "it's" # p0 y2 ## beta
#define M3() zed M1 ( \
   ( x1 , u8" ) ) y2
out0 = 42 beta << zed x1 M3 ( ) ;
out1 = M3 ( );
out3 = M2 ( y2 == x1 M2 ( "" beta beta ) ) ;
