class Str {
__published:
  void say(const char *msg = "a*/b");
  void quote(const char *msg = "q\"r", char c = '\'');
  void nl(const char *msg = "x\ny\\z");
};
