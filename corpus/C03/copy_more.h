// copy / move constructors with further, defaulted parameters ([class.copy.ctor]/1)
#ifndef CPPPARSER
#define __published public
#endif
class CopyMore {
__published:
  CopyMore();
  CopyMore(const CopyMore &other, int depth = 0);
  int id() const;
  CopyMore twin() const;
};
class CopyNot {
__published:
  CopyNot();
  CopyNot(const CopyNot &parent, int index, bool deep = true);
  int id() const;
};
class MoveMore {
__published:
  MoveMore();
  MoveMore(MoveMore &&other, int depth = 0);
  int id() const;
};
