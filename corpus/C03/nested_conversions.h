// conversion operators of nested classes whose target types are declared in an enclosing class or namespace:
// the generated cast is written at file scope and must name the type from there
#ifndef CPPPARSER
#define __published public
#endif
struct Pos { int line; int col; };
class Cursor {
__published:
  enum State { S_idle, S_busy };
  struct Mark { int at; };
  Cursor() : _state(S_idle) {}
  operator State () const { return _state; }
  operator Mark () const { Mark m = { 7 }; return m; }
  operator Pos () const { Pos p = { 1, 2 }; return p; }
  operator bool () const { return _state == S_busy; }
private:
  State _state;
};
class Lexer {
__published:
  enum Kind { K_none, K_word, K_number };
  struct Span { int begin; int end; };
  class Token {
  __published:
    Token() : _kind(K_word) {}
    operator Kind () const { return _kind; }
    operator Span () const { Span s = { 3, 9 }; return s; }
    operator const Token * () const { return this; }
    Kind kind() const { return _kind; }
    class Piece {
    __published:
      Piece() {}
      operator Kind () const { return K_number; }
      operator Span () const { Span s = { 1, 2 }; return s; }
    };
  private:
    Kind _kind;
  };
  Lexer() {}
  Token next() { return Token(); }
};
namespace grammar {
  enum Assoc { A_left, A_right };
  class Rule {
  __published:
    Rule() {}
    operator Assoc () const { return A_left; }
    class Alt {
    __published:
      Alt() {}
      operator Assoc () const { return A_right; }
    };
  };
}
