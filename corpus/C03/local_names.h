// published global functions named like the identifiers the generated wrappers use locally
__begin_publish
int param0(int a);
int param1(int a, int b);
int param2(double a);
int return_value(int x);
int args(int x);
int result(int x);
int self(int x);
int kwds(int x);
int coerced(int x);
__end_publish
