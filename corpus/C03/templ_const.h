template<int N> class Ring {
__published:
  int size() const { return N; }
};
class Grid {
protected:
  static const int num_cells = 16;
public:
  static const int pub_cells = 8;
__published:
  Ring<num_cells> get_ring() const;
  Ring<pub_cells> get_pub_ring() const;
  Ring<3 + 4> get_sum_ring() const;
};
