class Arr {
__published:
  int values[4];
  double grid[2][3];
  const char *names[3];
};
