// functions whose results the handle-style back-ends cannot return (their wrappers become void);
// with -unique-names the name table must still have one row per wrapper
__begin_publish
const float *probe_a(int i);
int *probe_b(int i);
const char *probe_c(int i);
const double *probe_d(int i, int j = 2);
int plain(int i);
__end_publish
