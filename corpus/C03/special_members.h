// classes whose implicit special members are deleted by what they declare ([class.copy.ctor]/6, [class.copy.assign]/4):
// a wrapper that copies such an object (return by value, coercion, "make copy") must not be generated
#ifndef CPPPARSER
#define __published public
#endif
class Copyable {
__published:
  Copyable() : _n(0) {}
  int get_n() const { return _n; }
  Copyable twin() const { return *this; }
private:
  int _n;
};
class MoveAssignOnly {
__published:
  MoveAssignOnly() : _size(0) {}
  int size() const { return _size; }
public:
  MoveAssignOnly &operator = (MoveAssignOnly &&from) noexcept { _size = from._size; return *this; }
private:
  int _size;
};
class MoveCtorOnly {
__published:
  MoveCtorOnly() : _size(0) {}
  int size() const { return _size; }
public:
  MoveCtorOnly(MoveCtorOnly &&from) noexcept : _size(from._size) {}
private:
  int _size;
};
class HoldsMoveAssignOnly {
__published:
  int count() const { return buf.size(); }
  MoveAssignOnly buf;
};
class HoldsMoveCtorOnly {
__published:
  HoldsMoveCtorOnly() {}
  int count() const { return buf.size(); }
  MoveCtorOnly buf;
};
class DerivedFromMoveAssignOnly : public MoveAssignOnly {
__published:
  int twice() const { return 2 * size(); }
};
class CopyDeleted {
__published:
  CopyDeleted() {}
  int zero() const { return 0; }
public:
  CopyDeleted(const CopyDeleted &) = delete;
};
