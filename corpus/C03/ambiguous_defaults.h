// overloads that take the same arguments once default arguments are left out (valid declarations: only such a call is ambiguous),
// and copy / move constructors with further, defaulted parameters ([class.copy.ctor]/1)
#ifndef CPPPARSER
#define __published public
#endif
class Amb {
__published:
  Amb();
  void f(int a, bool b = true);
  void f(int a);
  int g(double x);
  int g(double x, int scale = 2, int bias = 0);
  static int h(int a, int b = 1);
  static int h(int a);
};
class CopyBoth {
__published:
  CopyBoth();
  CopyBoth(const CopyBoth &a, int index, bool deep = true);
  CopyBoth(const CopyBoth &b, int depth = 0);
};
