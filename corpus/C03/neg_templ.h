template<int N> class Ring {
__published:
  int size() const { return N; }
};
class Neg {
__published:
  Ring<-3> get_a() const;
  Ring<-(-3)> get_b() const;
  Ring<(1 << 2)> get_c() const;
};
