import gc
import sys
import scene

Node = scene.Node
failures = []

def check(label, cond, detail=""):
    print(("ok   " if cond else "FAIL ") + label + (" -- " + detail if detail else ""))
    if not cond:
        failures.append(label)

def live():
    gc.collect()
    return Node.get_num_live()

check("no nodes alive at start", live() == 0)

# --- ordinary create / pass / return / drop sequences -----------------------
parent = Node(1)
kid = Node(2)
parent.set_child(kid)
check("child held by C++ parent and by Python", kid.get_ref_count() == 2)
c = parent.get_child()
check("get_child() returns a counted reference", (c.get_id(), kid.get_ref_count()) == (2, 3))
del c
check("dropping the wrapper gives the reference back", kid.get_ref_count() == 2)
w = parent.with_id(9)
check("with_id() returns a fresh owned copy", (w.get_id(), w.get_ref_count(), live()) == (9, 1, 3))
del w
check("fresh copy is destroyed when dropped", live() == 2)
m = Node.combine(parent, kid)
check("combine() returns a fresh owned node", (m.get_id(), m.get_ref_count(), live()) == (3, 1, 3))
del m
check("combined node is destroyed when dropped", live() == 2)

# --- the C++ side raises an assertion while a counted pointer is returned ----
try:
    parent.get_child_checked(77)
    check("get_child_checked(wrong id) raises AssertionError", False)
except AssertionError:
    check("get_child_checked(wrong id) raises AssertionError", True)
check("existing child keeps its count after the failed call", kid.get_ref_count() == 2,
      "ref_count=%d" % kid.get_ref_count())

before = live()
try:
    parent.with_id(-5)
    check("with_id(-5) raises AssertionError", False)
except AssertionError:
    check("with_id(-5) raises AssertionError", True)
check("failed with_id() leaves no extra Node behind", live() == before,
      "live before=%d after=%d" % (before, live()))

before = live()
twin = Node(1)
try:
    Node.combine(parent, twin)
    check("combine(equal ids) raises AssertionError", False)
except AssertionError:
    check("combine(equal ids) raises AssertionError", True)
del twin
check("failed combine() leaves no extra Node behind", live() == before,
      "live before=%d after=%d" % (before, live()))

before = live()
for i in range(1000):
    try:
        parent.with_id(-1 - i)
    except AssertionError:
        pass
check("1000 failed calls do not accumulate C++ objects", live() == before,
      "live before=%d after=%d" % (before, live()))

# --- everything goes away at the end -----------------------------------------
del parent, kid
check("all nodes destroyed once every wrapper is dropped", live() == 0, "live=%d" % live())

print("%d failure(s)" % len(failures))
sys.exit(1 if failures else 0)
