#include "pnotify.h"
#include "scene.h"

int Node::_num_live = 0;

Node::Node(int id) : _id(id), _child(nullptr) { ++_num_live; }
Node::Node(const Node &copy) : ReferenceCount(copy), _id(copy._id), _child(nullptr) { ++_num_live; }
Node::~Node() {
  --_num_live;
  if (_child != nullptr) {
    unref_delete(_child);
  }
}

void Node::set_child(Node *child) {
  if (child != nullptr) {
    child->ref();
  }
  if (_child != nullptr) {
    unref_delete(_child);
  }
  _child = child;
}

Node *Node::get_child_checked(int expected_id) const {
  nassertr(_child != nullptr && _child->_id == expected_id, _child);
  return _child;
}

Node Node::with_id(int id) const {
  Node result(*this);
  nassertr(id >= 0, result);
  result._id = id;
  return result;
}

Node *Node::combine(const Node *a, const Node *b) {
  Node *result = new Node(a->_id + b->_id);
  nassertr(a->_id != b->_id, result);
  return result;
}
