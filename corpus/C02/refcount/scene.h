#ifndef SCENE_H
#define SCENE_H
#include "dtoolbase.h"

// Same protocol as Panda3D's ReferenceCount: objects start at zero, holders
// call ref(), and whoever sees unref() return false deletes the object.
class ReferenceCount {
PUBLISHED:
  int get_ref_count() const { return _ref_count; }
public:
  ReferenceCount() : _ref_count(0) {}
  ReferenceCount(const ReferenceCount &) : _ref_count(0) {}
  virtual ~ReferenceCount() {}
  void ref() const { ++_ref_count; }
  bool unref() const { return --_ref_count != 0; }
private:
  mutable int _ref_count;
};

#ifndef CPPPARSER
template<class T> inline void unref_delete(T *ptr) {
  if (!ptr->unref()) {
    delete ptr;
  }
}
#endif

class Node : public ReferenceCount {
PUBLISHED:
  explicit Node(int id);
  Node(const Node &copy);
  virtual ~Node();

  int get_id() const { return _id; }
  void set_child(Node *child);
  Node *get_child() const { return _child; }
  MAKE_PROPERTY(child, get_child, set_child);

  // Returns the child, asserting that it has the expected id.
  Node *get_child_checked(int expected_id) const;
  // Returns a childless copy of this node carrying a different id (id >= 0).
  Node with_id(int id) const;
  // Allocates a new node whose id is the sum of both ids (which must differ).
  static Node *combine(const Node *a, const Node *b);

  static int get_num_live() { return _num_live; }

private:
  int _id;
  Node *_child;
  static int _num_live;
};
#endif
