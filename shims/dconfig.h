#ifndef SHIM_DCONFIG_H
#define SHIM_DCONFIG_H
#include "dtoolbase.h"
#define Configure(name) struct StaticInitializer_##name { StaticInitializer_##name(); }; static StaticInitializer_##name name
#define ConfigureDef(name) Configure(name)
#define ConfigureDecl(name, a, b)
#define ConfigureFn(name) StaticInitializer_##name::StaticInitializer_##name()
#endif
