// stub of Panda3D dconfig.h for compiling generated code offline
