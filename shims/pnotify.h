#ifndef SHIM_PNOTIFY_H
#define SHIM_PNOTIFY_H
#include "dtoolbase.h"
#include <assert.h>
#include <iostream>
#include <string>
#define nout (std::cerr)
class Notify {
public:
  static Notify *ptr() { static Notify n; return &n; }
  bool has_assert_failed() const { return _failed; }
  const std::string &get_assert_error_message() const { return _msg; }
  void clear_assert_failed() { _failed = false; _msg.clear(); }
  bool assert_failure(const char *expr, int line, const char *file) {
    _failed = true; _msg = std::string("Assertion failed: ") + expr; (void)line; (void)file; return true;
  }
  bool _failed = false;
  std::string _msg;
};
#define _nassert_check(c) (!(c))
#define nassertr(c, r) { if (_nassert_check(c)) { Notify::ptr()->assert_failure(#c, __LINE__, __FILE__); return r; } }
#define nassertv(c) { if (_nassert_check(c)) { Notify::ptr()->assert_failure(#c, __LINE__, __FILE__); return; } }
#define nassertd(c) if (_nassert_check(c) && Notify::ptr()->assert_failure(#c, __LINE__, __FILE__))
#define nassertr_always(c, r) nassertr(c, r)
#define nassertv_always(c) nassertv(c)
#define nassert_raise(m) Notify::ptr()->assert_failure(m, __LINE__, __FILE__)
#define nassert_static(c) static_assert(c, #c)
#endif
