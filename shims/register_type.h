// Minimal stand-in for Panda3D's dtool type registry, sufficient to build
// interrogate -python-native output without a Panda3D installation.
#ifndef SHIM_REGISTER_TYPE_H
#define SHIM_REGISTER_TYPE_H
#include "dtoolbase.h"
#include <Python.h>
#include <string>
#include <vector>
#include <map>

class TypeHandle;
class TypeRegistry {
public:
  typedef PyObject *PythonWrapFunc(void *ptr, PyTypeObject *cast_from);
  struct Node {
    std::string name;
    PyTypeObject *python_type = nullptr;
    PythonWrapFunc *wrap_func = nullptr;
  };
  static TypeRegistry *ptr() { static TypeRegistry r; return &r; }
  inline TypeHandle register_dynamic_type(const std::string &name);
  inline void record_python_type(TypeHandle type, PyTypeObject *python_type, PythonWrapFunc *func);
  inline void record_derivation(TypeHandle child, TypeHandle parent);
  std::vector<Node> _nodes{1};
  std::map<std::string, int> _by_name;
};

class TypeHandle {
public:
  TypeHandle() : _index(0) {}
  static TypeHandle none() { return TypeHandle(); }
  static TypeHandle from_index(int i) { TypeHandle h; h._index = i; return h; }
  int get_index() const { return _index; }
  bool operator == (const TypeHandle &o) const { return _index == o._index; }
  bool operator != (const TypeHandle &o) const { return _index != o._index; }
  std::string get_name() const { return TypeRegistry::ptr()->_nodes[_index].name; }
  PyTypeObject *get_python_type() const { return TypeRegistry::ptr()->_nodes[_index].python_type; }
  PyObject *wrap_python(void *ptr, PyTypeObject *cast_from = nullptr) const {
    if (_index <= 0) return nullptr;
    TypeRegistry::PythonWrapFunc *f = TypeRegistry::ptr()->_nodes[_index].wrap_func;
    return f ? f(ptr, cast_from) : nullptr;
  }
  int _index;
};

inline TypeHandle TypeRegistry::register_dynamic_type(const std::string &name) {
  auto it = _by_name.find(name);
  if (it != _by_name.end()) return TypeHandle::from_index(it->second);
  Node n; n.name = name;
  _nodes.push_back(n);
  _by_name[name] = (int)_nodes.size() - 1;
  return TypeHandle::from_index((int)_nodes.size() - 1);
}
inline void TypeRegistry::record_derivation(TypeHandle, TypeHandle) {}
inline void TypeRegistry::record_python_type(TypeHandle type, PyTypeObject *python_type, PythonWrapFunc *func) {
  _nodes[type.get_index()].python_type = python_type;
  _nodes[type.get_index()].wrap_func = func;
}
#define get_type_handle(T) (T::get_class_type())
#endif
