// LD_PRELOAD shim: time() returns the value of the environment variable FAKE_TIME (seconds since the epoch),
// so that two runs "at different wall-clock times" can be made within one check.
#define _GNU_SOURCE
#include <dlfcn.h>
#include <stdlib.h>
#include <time.h>

time_t time(time_t *out) {
  const char *v = getenv("FAKE_TIME");
  time_t t;
  if (v != NULL && v[0] != '\0') {
    t = (time_t)atoll(v);
  } else {
    static time_t (*real)(time_t *);
    if (!real) real = (time_t (*)(time_t *))dlsym(RTLD_NEXT, "time");
    t = real(NULL);
  }
  if (out != NULL) *out = t;
  return t;
}
