// LD_PRELOAD fault injector for C19: fails the k-th open/write/close on the file whose
// path ends with $IGV_FAULT_PATH.  Counts every intercepted call on that file and
// appends "opens=<n> writes=<n> closes=<n> fired=<n>" to $IGV_FAULT_LOG at exit.
#define _GNU_SOURCE
#include <dlfcn.h>
#include <errno.h>
#include <fcntl.h>
#include <stdarg.h>
#include <stdio.h>
#include <stdlib.h>
#include <string.h>
#include <sys/uio.h>
#include <unistd.h>

static int target_fd = -1;
static long n_open = 0, n_write = 0, n_close = 0, n_fired = 0;
static int registered = 0;

static const char *env(const char *k) { const char *v = getenv(k); return v ? v : ""; }

static void report(void) {
  const char *log = getenv("IGV_FAULT_LOG");
  if (!log) return;
  int (*real_open)(const char *, int, ...) = dlsym(RTLD_NEXT, "open");
  ssize_t (*real_write)(int, const void *, size_t) = dlsym(RTLD_NEXT, "write");
  int (*real_close)(int) = dlsym(RTLD_NEXT, "close");
  int fd = real_open(log, O_WRONLY | O_CREAT | O_APPEND, 0644);
  if (fd < 0) return;
  char buf[200];
  int n = snprintf(buf, sizeof buf, "opens=%ld writes=%ld closes=%ld fired=%ld\n", n_open, n_write, n_close, n_fired);
  real_write(fd, buf, n);
  real_close(fd);
}

static void ensure(void) { if (!registered) { registered = 1; atexit(report); } }

static int is_target(const char *path) {
  const char *t = env("IGV_FAULT_PATH");
  size_t lt = strlen(t), lp = strlen(path);
  return lt > 0 && lp >= lt && strcmp(path + lp - lt, t) == 0;
}

static int should_fail(const char *op, long count) {
  if (strcmp(env("IGV_FAULT_OP"), op) != 0) return 0;
  long k = atol(env("IGV_FAULT_K"));
  if (count == k) { n_fired++; errno = atoi(env("IGV_FAULT_ERRNO")) ? atoi(env("IGV_FAULT_ERRNO")) : ENOSPC; return 1; }
  return 0;
}

static int do_open(const char *path, int flags, mode_t mode, const char *sym) {
  int (*real)(const char *, int, ...) = dlsym(RTLD_NEXT, sym);
  if (is_target(path) && (flags & (O_WRONLY | O_RDWR))) {
    ensure();
    n_open++;
    if (should_fail("open", n_open)) return -1;
    int fd = real(path, flags, mode);
    if (fd >= 0) target_fd = fd;
    return fd;
  }
  return real(path, flags, mode);
}

int open(const char *path, int flags, ...) {
  va_list ap; va_start(ap, flags); mode_t mode = va_arg(ap, int); va_end(ap);
  return do_open(path, flags, mode, "open");
}
int open64(const char *path, int flags, ...) {
  va_list ap; va_start(ap, flags); mode_t mode = va_arg(ap, int); va_end(ap);
  return do_open(path, flags, mode, "open64");
}
int openat(int dirfd, const char *path, int flags, ...) {
  va_list ap; va_start(ap, flags); mode_t mode = va_arg(ap, int); va_end(ap);
  int (*real)(int, const char *, int, ...) = dlsym(RTLD_NEXT, "openat");
  if (is_target(path) && (flags & (O_WRONLY | O_RDWR))) {
    ensure();
    n_open++;
    if (should_fail("open", n_open)) return -1;
    int fd = real(dirfd, path, flags, mode);
    if (fd >= 0) target_fd = fd;
    return fd;
  }
  return real(dirfd, path, flags, mode);
}
FILE *fopen(const char *path, const char *mode) {
  FILE *(*real)(const char *, const char *) = dlsym(RTLD_NEXT, "fopen");
  if (is_target(path) && strchr(mode, 'w')) {
    ensure();
    n_open++;
    if (should_fail("open", n_open)) return NULL;
    FILE *f = real(path, mode);
    if (f) target_fd = fileno(f);
    return f;
  }
  return real(path, mode);
}
FILE *fopen64(const char *path, const char *mode) {
  FILE *(*real)(const char *, const char *) = dlsym(RTLD_NEXT, "fopen64");
  if (is_target(path) && strchr(mode, 'w')) {
    ensure();
    n_open++;
    if (should_fail("open", n_open)) return NULL;
    FILE *f = real(path, mode);
    if (f) target_fd = fileno(f);
    return f;
  }
  return real(path, mode);
}

ssize_t write(int fd, const void *buf, size_t n) {
  ssize_t (*real)(int, const void *, size_t) = dlsym(RTLD_NEXT, "write");
  if (fd == target_fd && fd >= 0) {
    n_write++;
    if (should_fail("write", n_write)) return -1;
  }
  return real(fd, buf, n);
}
ssize_t writev(int fd, const struct iovec *iov, int cnt) {
  ssize_t (*real)(int, const struct iovec *, int) = dlsym(RTLD_NEXT, "writev");
  if (fd == target_fd && fd >= 0) {
    n_write++;
    if (should_fail("write", n_write)) return -1;
  }
  return real(fd, iov, cnt);
}
int fclose(FILE *f) {
  int (*real)(FILE *) = dlsym(RTLD_NEXT, "fclose");
  if (f && target_fd >= 0 && fileno(f) == target_fd) {
    n_close++;
    target_fd = -1;
    if (should_fail("close", n_close)) { real(f); errno = EIO; return EOF; }
  }
  return real(f);
}
int close(int fd) {
  int (*real)(int) = dlsym(RTLD_NEXT, "close");
  if (fd == target_fd && fd >= 0) {
    n_close++;
    target_fd = -1;
    if (should_fail("close", n_close)) { real(fd); return -1; }
  }
  return real(fd);
}
