// LD_PRELOAD shim simulating a locale whose decimal point is ',' (no such locale is installed in the sandbox):
// localeconv() reports ',' and strtod()/strtold()/strtof() accept ',' (and not '.') as the decimal point.
#define _GNU_SOURCE
#include <dlfcn.h>
#include <locale.h>
#include <stdlib.h>
#include <string.h>

struct lconv *localeconv(void) {
  static struct lconv *(*real)(void);
  static struct lconv copy;
  if (!real) real = dlsym(RTLD_NEXT, "localeconv");
  copy = *real();
  copy.decimal_point = (char *)",";
  copy.thousands_sep = (char *)".";
  return &copy;
}

static double conv(const char *s, char **end) {
  static double (*real)(const char *, char **);
  if (!real) real = dlsym(RTLD_NEXT, "strtod");
  // a ','-locale strtod stops at '.', and reads ',' as the decimal point
  size_t n = strlen(s);
  char *tmp = malloc(n + 1);
  size_t i;
  for (i = 0; i < n; ++i) {
    if (s[i] == '.') { tmp[i] = '\0'; break; }
    tmp[i] = (s[i] == ',') ? '.' : s[i];
  }
  tmp[i < n ? i : n] = '\0';
  char *e = NULL;
  double v = real(tmp, &e);
  if (end) *end = (char *)s + (e - tmp);
  free(tmp);
  return v;
}
double strtod(const char *s, char **end) { return conv(s, end); }
