// Correspondence harness for C18: pdtoa / pstrtod of the rebuilt libdtoolbase, plus glibc strtod as the reference.
#include "pdtoa.h"
#include "pstrtod.h"
#include <clocale>
#include <cstdint>
#include <cstdlib>
#include <cstring>
#include <iostream>
#include <sstream>
#include <string>
using std::string;
static string unhex(const string &s) {
  if (s == "-") return string();
  string out;
  auto v = [](char c) -> int { if (c >= '0' && c <= '9') return c - '0'; if (c >= 'a' && c <= 'f') return c - 'a' + 10; return 0; };
  for (size_t i = 0; i + 1 < s.size(); i += 2) out.push_back((char)(v(s[i]) * 16 + v(s[i + 1])));
  return out;
}
static uint64_t bits_of(double d) { uint64_t u; memcpy(&u, &d, 8); return u; }
int main(int argc, char **argv) {
  if (argc > 1) {
    if (setlocale(LC_ALL, argv[1]) == nullptr) { std::cout << "no-locale\n"; return 3; }
  }
  string line;
  while (std::getline(std::cin, line)) {
    std::istringstream ss(line);
    string op, arg;
    ss >> op >> arg;
    if (op == "dtoa") {
      uint64_t u = strtoull(arg.c_str(), nullptr, 10);
      double d; memcpy(&d, &u, 8);
      char buf[64];
      pdtoa(d, buf);
      std::cout << buf << "\n" << std::flush;
    } else if (op == "strtod") {
      string s = unhex(arg);
      char *end = nullptr;
      double d = pstrtod(s.c_str(), &end);
      std::cout << bits_of(d) << " " << (end - s.c_str()) << "\n" << std::flush;
    } else if (op == "ref") {
      // glibc's correctly rounded conversion, in the "C" locale semantics: used as the oracle only from a C-locale process
      string s = unhex(arg);
      std::cout << bits_of(strtod(s.c_str(), nullptr)) << "\n" << std::flush;
    } else {
      std::cout << "bad-op\n" << std::flush;
    }
  }
  return 0;
}
