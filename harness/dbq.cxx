// Correspondence harness for the database / query-interface models (C11, C12, C13, C20).
// Reads the same op lines as `igdriver db` and answers each from the REAL library
// (libinterrogatedb.so rebuilt from /repo's working tree).  Compiled with
// -fno-access-control so that a fresh InterrogateDatabase can be started (`reset`).
#include "interrogate_interface.h"
#include "interrogate_request.h"
#include "interrogateDatabase.h"
#include "indexRemapper.h"
#include <cstdio>
#include <cstring>
#include <cstdint>
#include <iostream>
#include <fstream>
#include <sstream>
#include <string>
#include <vector>
#include <map>
#include <functional>

using std::string;
using std::vector;

static string unhex(const string &s) {
  if (s == "-") return string();
  string out;
  auto v = [](char c) -> int {
    if (c >= '0' && c <= '9') return c - '0';
    if (c >= 'a' && c <= 'f') return c - 'a' + 10;
    if (c >= 'A' && c <= 'F') return c - 'A' + 10;
    return 0;
  };
  for (size_t i = 0; i + 1 < s.size(); i += 2) out.push_back((char)(v(s[i]) * 16 + v(s[i + 1])));
  return out;
}
static string hex(const string &s) {
  if (s.empty()) return "-";
  static const char *d = "0123456789abcdef";
  string out;
  for (unsigned char c : s) { out.push_back(d[c >> 4]); out.push_back(d[c & 15]); }
  return out;
}
static string hexc(const char *p) { return p == nullptr ? string("-") : hex(string(p)); }
static string fnv(const string &b) {
  uint64_t h = 14695981039346656037ULL;
  for (unsigned char c : b) { h ^= c; h *= 1099511628211ULL; }
  return std::to_string(b.size()) + ":" + std::to_string(h);
}

typedef std::function<string(int)> F1;
typedef std::function<string(int, int)> F2;
static std::map<string, F1> intf, strf, cntf, flagf;
static std::map<string, F2> atf;
static std::map<string, std::map<string, F2>> subf;

#define I1(kind, member, fn) intf[kind "." member] = [](int i) { return std::to_string((long long)fn(i)); }
#define S1(kind, member, fn) strf[kind "." member] = [](int i) { return hexc(fn(i)); }
#define C1(kind, member, fn) cntf[kind "." member] = [](int i) { return std::to_string((long long)fn(i)); }
#define B1(kind, pred, fn) flagf[kind "." pred] = [](int i) { return string(fn(i) ? "1" : "0"); }
#define A2(kind, member, fn) atf[kind "." member] = [](int i, int n) { return std::to_string((long long)fn(i, n)); }

static void init_tables() {
  // functions
  S1("function", "_name", interrogate_function_name);
  S1("function", "_scoped_name", interrogate_function_scoped_name);
  S1("function", "_comment", interrogate_function_comment);
  S1("function", "_prototype", interrogate_function_prototype);
  I1("function", "_class", interrogate_function_class);
  C1("function", "_c_wrappers", interrogate_function_number_of_c_wrappers);
  C1("function", "_python_wrappers", interrogate_function_number_of_python_wrappers);
  A2("function", "_c_wrappers", interrogate_function_c_wrapper);
  A2("function", "_python_wrappers", interrogate_function_python_wrapper);
  B1("function", "is_method", interrogate_function_is_method);
  B1("function", "is_unary_op", interrogate_function_is_unary_op);
  B1("function", "is_operator_typecast", interrogate_function_is_operator_typecast);
  B1("function", "is_constructor", interrogate_function_is_constructor);
  B1("function", "is_destructor", interrogate_function_is_destructor);
  B1("function", "is_virtual", interrogate_function_is_virtual);
  intf["function._flags"] = [](int i) { return std::to_string(InterrogateDatabase::get_ptr()->get_function(i)._flags); };
  flagf["function.is_global"] = [](int i) { return string(InterrogateDatabase::get_ptr()->get_function(i).is_global() ? "1" : "0"); };
  // wrappers
  S1("wrapper", "_name", interrogate_wrapper_name);
  S1("wrapper", "_comment", interrogate_wrapper_comment);
  S1("wrapper", "_unique_name", interrogate_wrapper_unique_name);
  I1("wrapper", "_function", interrogate_wrapper_function);
  I1("wrapper", "_return_type", interrogate_wrapper_return_type);
  I1("wrapper", "_return_value_destructor", interrogate_wrapper_return_value_destructor);
  C1("wrapper", "_parameters", interrogate_wrapper_number_of_parameters);
  B1("wrapper", "is_callable_by_name", interrogate_wrapper_is_callable_by_name);
  B1("wrapper", "is_copy_constructor", interrogate_wrapper_is_copy_constructor);
  B1("wrapper", "is_coerce_constructor", interrogate_wrapper_is_coerce_constructor);
  B1("wrapper", "is_extension", interrogate_wrapper_is_extension);
  B1("wrapper", "is_deprecated", interrogate_wrapper_is_deprecated);
  B1("wrapper", "has_return_value", interrogate_wrapper_has_return_value);
  B1("wrapper", "caller_manages_return_value", interrogate_wrapper_caller_manages_return_value);
  intf["wrapper._flags"] = [](int i) { return std::to_string(InterrogateDatabase::get_ptr()->get_wrapper(i)._flags); };
  subf["wrapper._parameters"]["_type"] = [](int i, int n) { return std::to_string(interrogate_wrapper_parameter_type(i, n)); };
  subf["wrapper._parameters"]["_name"] = [](int i, int n) { return hexc(interrogate_wrapper_parameter_name(i, n)); };
  subf["wrapper._parameters"]["_parameter_flags"] = [](int i, int n) {
    int f = (interrogate_wrapper_parameter_has_name(i, n) ? 1 : 0) | (interrogate_wrapper_parameter_is_this(i, n) ? 2 : 0) |
            (interrogate_wrapper_parameter_is_optional(i, n) ? 4 : 0);
    return std::to_string(f); };
  // types
  S1("type", "_name", interrogate_type_name);
  S1("type", "_scoped_name", interrogate_type_scoped_name);
  S1("type", "_true_name", interrogate_type_true_name);
  S1("type", "_comment", interrogate_type_comment);
  I1("type", "_outer_class", interrogate_type_outer_class);
  I1("type", "_atomic_token", interrogate_type_atomic_token);
  I1("type", "_wrapped_type", interrogate_type_wrapped_type);
  I1("type", "_array_size", interrogate_type_array_size);
  I1("type", "_destructor", interrogate_type_get_destructor);
  intf["type._flags"] = [](int i) { return std::to_string(InterrogateDatabase::get_ptr()->get_type(i)._flags); };
  C1("type", "_constructors", interrogate_type_number_of_constructors);
  C1("type", "_elements", interrogate_type_number_of_elements);
  C1("type", "_methods", interrogate_type_number_of_methods);
  C1("type", "_make_seqs", interrogate_type_number_of_make_seqs);
  C1("type", "_casts", interrogate_type_number_of_casts);
  C1("type", "_derivations", interrogate_type_number_of_derivations);
  C1("type", "_enum_values", interrogate_type_number_of_enum_values);
  C1("type", "_nested_types", interrogate_type_number_of_nested_types);
  A2("type", "_constructors", interrogate_type_get_constructor);
  A2("type", "_elements", interrogate_type_get_element);
  A2("type", "_methods", interrogate_type_get_method);
  A2("type", "_make_seqs", interrogate_type_get_make_seq);
  A2("type", "_casts", interrogate_type_get_cast);
  A2("type", "_nested_types", interrogate_type_get_nested_type);
  subf["type._derivations"]["_base"] = [](int i, int n) { return std::to_string(interrogate_type_get_derivation(i, n)); };
  subf["type._derivations"]["_upcast"] = [](int i, int n) { return std::to_string(interrogate_type_get_upcast(i, n)); };
  subf["type._derivations"]["_downcast"] = [](int i, int n) { return std::to_string(interrogate_type_get_downcast(i, n)); };
  subf["type._derivations"]["_flags"] = [](int i, int n) {
    int f = (interrogate_type_derivation_has_upcast(i, n) ? 1 : 0) | (interrogate_type_derivation_has_downcast(i, n) ? 2 : 0) |
            (interrogate_type_derivation_downcast_is_impossible(i, n) ? 4 : 0);
    return std::to_string(f); };
  subf["type._enum_values"]["_name"] = [](int i, int n) { return hexc(interrogate_type_enum_value_name(i, n)); };
  subf["type._enum_values"]["_scoped_name"] = [](int i, int n) { return hexc(interrogate_type_enum_value_scoped_name(i, n)); };
  subf["type._enum_values"]["_comment"] = [](int i, int n) { return hexc(interrogate_type_enum_value_comment(i, n)); };
  subf["type._enum_values"]["_value"] = [](int i, int n) { return std::to_string(interrogate_type_enum_value(i, n)); };
  B1("type", "is_global", interrogate_type_is_global);
  B1("type", "is_deprecated", interrogate_type_is_deprecated);
  B1("type", "is_nested", interrogate_type_is_nested);
  B1("type", "is_atomic", interrogate_type_is_atomic);
  B1("type", "is_unsigned", interrogate_type_is_unsigned);
  B1("type", "is_signed", interrogate_type_is_signed);
  B1("type", "is_long", interrogate_type_is_long);
  B1("type", "is_longlong", interrogate_type_is_longlong);
  B1("type", "is_short", interrogate_type_is_short);
  B1("type", "is_wrapped", interrogate_type_is_wrapped);
  B1("type", "is_pointer", interrogate_type_is_pointer);
  B1("type", "is_const", interrogate_type_is_const);
  B1("type", "is_typedef", interrogate_type_is_typedef);
  B1("type", "is_array", interrogate_type_is_array);
  B1("type", "is_enum", interrogate_type_is_enum);
  B1("type", "is_scoped_enum", interrogate_type_is_scoped_enum);
  B1("type", "is_struct", interrogate_type_is_struct);
  B1("type", "is_class", interrogate_type_is_class);
  B1("type", "is_union", interrogate_type_is_union);
  B1("type", "is_fully_defined", interrogate_type_is_fully_defined);
  B1("type", "is_unpublished", interrogate_type_is_unpublished);
  B1("type", "is_final", interrogate_type_is_final);
  // manifests
  S1("manifest", "_name", interrogate_manifest_name);
  S1("manifest", "_definition", interrogate_manifest_definition);
  I1("manifest", "_type", interrogate_manifest_get_type);
  I1("manifest", "_getter", interrogate_manifest_getter);
  I1("manifest", "_int_value", interrogate_manifest_get_int_value);
  intf["manifest._flags"] = [](int i) { return std::to_string(InterrogateDatabase::get_ptr()->get_manifest(i)._flags); };
  B1("manifest", "has_int_value", interrogate_manifest_has_int_value);
  // elements
  S1("element", "_name", interrogate_element_name);
  S1("element", "_scoped_name", interrogate_element_scoped_name);
  S1("element", "_comment", interrogate_element_comment);
  I1("element", "_type", interrogate_element_type);
  I1("element", "_getter", interrogate_element_getter);
  I1("element", "_setter", interrogate_element_setter);
  I1("element", "_has_function", interrogate_element_has_function);
  I1("element", "_clear_function", interrogate_element_clear_function);
  I1("element", "_del_function", interrogate_element_del_function);
  I1("element", "_insert_function", interrogate_element_insert_function);
  I1("element", "_getkey_function", interrogate_element_getkey_function);
  I1("element", "_length_function", interrogate_element_length_function);
  intf["element._flags"] = [](int i) { return std::to_string(InterrogateDatabase::get_ptr()->get_element(i)._flags); };
  B1("element", "has_getter", interrogate_element_has_getter);
  B1("element", "has_setter", interrogate_element_has_setter);
  B1("element", "has_has_function", interrogate_element_has_has_function);
  B1("element", "has_clear_function", interrogate_element_has_clear_function);
  B1("element", "has_del_function", interrogate_element_has_del_function);
  B1("element", "has_insert_function", interrogate_element_has_insert_function);
  B1("element", "has_getkey_function", interrogate_element_has_getkey_function);
  B1("element", "is_sequence", interrogate_element_is_sequence);
  B1("element", "is_mapping", interrogate_element_is_mapping);
  flagf["element.is_global"] = [](int i) { return string(InterrogateDatabase::get_ptr()->get_element(i).is_global() ? "1" : "0"); };
  // make_seqs
  S1("makeSeq", "_name", interrogate_make_seq_seq_name);
  S1("makeSeq", "_scoped_name", interrogate_make_seq_scoped_name);
  S1("makeSeq", "_comment", interrogate_make_seq_comment);
  I1("makeSeq", "_length_getter", interrogate_make_seq_num_getter);
  I1("makeSeq", "_element_getter", interrogate_make_seq_element_getter);
}

template <class T> static string alt_at(const T &c, int n) { return hex(c.get_alt_name(n)); }

static const InterrogateComponent *component(const string &kind, int idx) {
  InterrogateDatabase *db = InterrogateDatabase::get_ptr();
  if (kind == "function") return &db->get_function(idx);
  if (kind == "wrapper") return &db->get_wrapper(idx);
  if (kind == "type") return &db->get_type(idx);
  if (kind == "manifest") return &db->get_manifest(idx);
  if (kind == "element") return &db->get_element(idx);
  if (kind == "makeSeq") return &db->get_make_seq(idx);
  return nullptr;
}

// Calls every function of the C interface with (idx, pos); the point is that it returns.
static void sweep_all(int i, int n) {
  volatile long long sink = 0;
  auto S = [&](const char *p) { if (p != nullptr) sink += (long long)strlen(p); };
  sink += interrogate_error_flag(); sink += interrogate_number_of_manifests(); sink += interrogate_get_manifest(n);
  S(interrogate_manifest_name(i)); S(interrogate_manifest_definition(i)); sink += interrogate_manifest_has_type(i);
  sink += interrogate_manifest_get_type(i); sink += interrogate_manifest_has_getter(i); sink += interrogate_manifest_getter(i);
  sink += interrogate_manifest_has_int_value(i); sink += interrogate_manifest_get_int_value(i);
  S(interrogate_element_name(i)); S(interrogate_element_scoped_name(i)); sink += interrogate_element_has_comment(i);
  S(interrogate_element_comment(i)); sink += interrogate_element_type(i); sink += interrogate_element_has_getter(i);
  sink += interrogate_element_getter(i); sink += interrogate_element_has_setter(i); sink += interrogate_element_setter(i);
  sink += interrogate_element_has_has_function(i); sink += interrogate_element_has_function(i);
  sink += interrogate_element_has_clear_function(i); sink += interrogate_element_clear_function(i);
  sink += interrogate_element_has_del_function(i); sink += interrogate_element_del_function(i);
  sink += interrogate_element_has_insert_function(i); sink += interrogate_element_insert_function(i);
  sink += interrogate_element_has_getkey_function(i); sink += interrogate_element_getkey_function(i);
  sink += interrogate_element_length_function(i); sink += interrogate_element_is_sequence(i); sink += interrogate_element_is_mapping(i);
  sink += interrogate_number_of_globals(); sink += interrogate_get_global(n); sink += interrogate_number_of_global_functions();
  sink += interrogate_get_global_function(n); sink += interrogate_number_of_functions(); sink += interrogate_get_function(n);
  S(interrogate_function_name(i)); S(interrogate_function_scoped_name(i)); sink += interrogate_function_has_comment(i);
  S(interrogate_function_comment(i)); S(interrogate_function_prototype(i)); sink += interrogate_function_is_method(i);
  sink += interrogate_function_class(i); sink += interrogate_function_is_unary_op(i); sink += interrogate_function_is_operator_typecast(i);
  sink += interrogate_function_is_constructor(i); sink += interrogate_function_is_destructor(i);
  sink += interrogate_function_has_module_name(i); S(interrogate_function_module_name(i));
  sink += interrogate_function_has_library_name(i); S(interrogate_function_library_name(i)); sink += interrogate_function_is_virtual(i);
  sink += interrogate_function_number_of_c_wrappers(i); sink += interrogate_function_c_wrapper(i, n);
  sink += interrogate_function_number_of_python_wrappers(i); sink += interrogate_function_python_wrapper(i, n);
  S(interrogate_wrapper_name(i)); sink += interrogate_wrapper_function(i); sink += interrogate_wrapper_is_callable_by_name(i);
  sink += interrogate_wrapper_is_copy_constructor(i); sink += interrogate_wrapper_is_coerce_constructor(i);
  sink += interrogate_wrapper_is_extension(i); sink += interrogate_wrapper_is_deprecated(i); sink += interrogate_wrapper_has_comment(i);
  S(interrogate_wrapper_comment(i)); sink += interrogate_wrapper_has_return_value(i); sink += interrogate_wrapper_return_type(i);
  sink += interrogate_wrapper_caller_manages_return_value(i); sink += interrogate_wrapper_return_value_destructor(i);
  sink += interrogate_wrapper_number_of_parameters(i); sink += interrogate_wrapper_parameter_type(i, n);
  sink += interrogate_wrapper_parameter_has_name(i, n); S(interrogate_wrapper_parameter_name(i, n));
  sink += interrogate_wrapper_parameter_is_this(i, n); sink += interrogate_wrapper_parameter_is_optional(i, n);
  sink += interrogate_wrapper_has_pointer(i); sink += (long long)(intptr_t)interrogate_wrapper_pointer(i);
  S(interrogate_wrapper_unique_name(i));
  S(interrogate_make_seq_seq_name(i)); S(interrogate_make_seq_scoped_name(i)); sink += interrogate_make_seq_has_comment(i);
  S(interrogate_make_seq_comment(i)); S(interrogate_make_seq_num_name(i)); S(interrogate_make_seq_element_name(i));
  sink += interrogate_make_seq_num_getter(i); sink += interrogate_make_seq_element_getter(i);
  sink += interrogate_number_of_global_types(); sink += interrogate_get_global_type(n); sink += interrogate_number_of_types();
  sink += interrogate_get_type(n); sink += interrogate_type_is_global(i); sink += interrogate_type_is_deprecated(i);
  S(interrogate_type_name(i)); S(interrogate_type_scoped_name(i)); S(interrogate_type_true_name(i)); sink += interrogate_type_is_nested(i);
  sink += interrogate_type_outer_class(i); sink += interrogate_type_has_comment(i); S(interrogate_type_comment(i));
  sink += interrogate_type_has_module_name(i); S(interrogate_type_module_name(i)); sink += interrogate_type_has_library_name(i);
  S(interrogate_type_library_name(i)); sink += interrogate_type_is_atomic(i); sink += interrogate_type_atomic_token(i);
  sink += interrogate_type_is_unsigned(i); sink += interrogate_type_is_signed(i); sink += interrogate_type_is_long(i);
  sink += interrogate_type_is_longlong(i); sink += interrogate_type_is_short(i); sink += interrogate_type_is_wrapped(i);
  sink += interrogate_type_is_pointer(i); sink += interrogate_type_is_const(i); sink += interrogate_type_is_typedef(i);
  sink += interrogate_type_wrapped_type(i); sink += interrogate_type_is_array(i); sink += interrogate_type_array_size(i);
  sink += interrogate_type_is_enum(i); sink += interrogate_type_is_scoped_enum(i); sink += interrogate_type_number_of_enum_values(i);
  S(interrogate_type_enum_value_name(i, n)); S(interrogate_type_enum_value_scoped_name(i, n)); S(interrogate_type_enum_value_comment(i, n));
  sink += interrogate_type_enum_value(i, n); sink += interrogate_type_is_struct(i); sink += interrogate_type_is_class(i);
  sink += interrogate_type_is_union(i); sink += interrogate_type_is_fully_defined(i); sink += interrogate_type_is_unpublished(i);
  sink += interrogate_type_number_of_constructors(i); sink += interrogate_type_get_constructor(i, n);
  sink += interrogate_type_has_destructor(i); sink += interrogate_type_destructor_is_inherited(i); sink += interrogate_type_get_destructor(i);
  sink += interrogate_type_number_of_elements(i); sink += interrogate_type_get_element(i, n);
  sink += interrogate_type_number_of_methods(i); sink += interrogate_type_get_method(i, n);
  sink += interrogate_type_number_of_make_seqs(i); sink += interrogate_type_get_make_seq(i, n);
  sink += interrogate_type_number_of_casts(i); sink += interrogate_type_get_cast(i, n);
  sink += interrogate_type_number_of_derivations(i); sink += interrogate_type_get_derivation(i, n); sink += interrogate_type_is_final(i);
  sink += interrogate_type_derivation_has_upcast(i, n); sink += interrogate_type_get_upcast(i, n);
  sink += interrogate_type_derivation_downcast_is_impossible(i, n); sink += interrogate_type_derivation_has_downcast(i, n);
  sink += interrogate_type_get_downcast(i, n); sink += interrogate_type_number_of_nested_types(i); sink += interrogate_type_get_nested_type(i, n);
  (void)sink;
}

static vector<void *> fptr_base;   // per module: base of its fake fptr table
static vector<int> fptr_count;

static string step(const vector<string> &t) {
  InterrogateDatabase *db = InterrogateDatabase::get_ptr();
  if (t.empty()) return "bad-op";
  const string &op = t[0];
  if (op == "reset" && t.size() == 1) {
    InterrogateDatabase::_global_ptr = nullptr;   // leak the old one on purpose
    fptr_base.clear(); fptr_count.clear();
    return "ok";
  }
  if (op == "reqfile" && t.size() == 2) {
    string path = t[1] == "!missing" ? string("/nonexistent/igverif/missing.in") : t[1];
    interrogate_request_database(path.c_str());
    return "ok";
  }
  if (op == "reqmod" && t.size() >= 9) {
    InterrogateModuleDef *def = new InterrogateModuleDef;
    memset(def, 0, sizeof(*def));
    def->file_identifier = atoi(t[1].c_str());
    def->library_name = t[2] == "~" ? nullptr : strdup(unhex(t[2]).c_str());
    def->library_hash_name = strdup(unhex(t[3]).c_str());
    def->module_name = nullptr;
    def->first_index = atoi(t[4].c_str());
    def->next_index = atoi(t[5].c_str());
    def->num_fptrs = atoi(t[6].c_str());
    // a table embedded in a larger array so that out-of-range reads would be observable, not UB-crashes
    int nf = def->num_fptrs > 0 ? def->num_fptrs : 0;
    void **big = new void *[nf + 64];
    for (int k = 0; k < nf + 64; ++k) big[k] = (void *)(intptr_t)(0x1000 + k);
    def->fptrs = big + 32;
    if (t[7] == "~") def->database_filename = nullptr;
    else if (t[7] == "!missing") def->database_filename = "/nonexistent/igverif/missing.in";
    else def->database_filename = strdup(t[7].c_str());
    int n = atoi(t[8].c_str());
    def->num_unique_names = n;
    def->unique_names = new InterrogateUniqueNameDef[n + 1];
    for (int k = 0; k < n; ++k) {
      def->unique_names[k].name = strdup(unhex(t[9 + 2 * k]).c_str());
      def->unique_names[k].index_offset = atoi(t[10 + 2 * k].c_str());
    }
    interrogate_request_module(def);
    return "ok";
  }
  if (op == "err") return interrogate_error_flag() ? "1" : "0";
  if (op == "next") return std::to_string(db->_next_index);
  if (op == "q" && t.size() == 5) {
    string key = t[2] + "." + t[4];
    int idx = atoi(t[3].c_str());
    if (t[1] == "int") { auto it = intf.find(key); return it == intf.end() ? "bad-op" : it->second(idx); }
    if (t[1] == "str") { auto it = strf.find(key); return it == strf.end() ? "bad-op" : it->second(idx); }
    if (t[1] == "cnt") {
      if (t[4] == "_alt_names") { db->check_latest(); const InterrogateComponent *c = component(t[2], idx); return c ? std::to_string(c->get_num_alt_names()) : "bad-op"; }
      auto it = cntf.find(key); return it == cntf.end() ? "bad-op" : it->second(idx);
    }
    if (t[1] == "flag") { auto it = flagf.find(key); return it == flagf.end() ? "bad-op" : it->second(idx); }
    return "bad-op";
  }
  if (op == "q" && t.size() == 6 && t[1] == "at") {
    int idx = atoi(t[3].c_str()), pos = atoi(t[5].c_str());
    if (t[4] == "_alt_names") { db->check_latest(); const InterrogateComponent *c = component(t[2], idx); return c ? hex(c->get_alt_name(pos)) : "bad-op"; }
    auto it = atf.find(t[2] + "." + t[4]);
    return it == atf.end() ? "bad-op" : it->second(idx, pos);
  }
  if (op == "q" && t.size() == 7 && t[1] == "sub") {
    int idx = atoi(t[3].c_str()), pos = atoi(t[5].c_str());
    auto it = subf.find(t[2] + "." + t[4]);
    if (it == subf.end()) return "bad-op";
    auto jt = it->second.find(t[6]);
    return jt == it->second.end() ? "bad-op" : jt->second(idx, pos);
  }
  if (op == "lookup" && t.size() == 3) {
    string name = unhex(t[2]);
    if (t[1] == "type_name") return std::to_string(interrogate_get_type_by_name(name.c_str()));
    if (t[1] == "type_scoped_name") return std::to_string(interrogate_get_type_by_scoped_name(name.c_str()));
    if (t[1] == "type_true_name") return std::to_string(interrogate_get_type_by_true_name(name.c_str()));
    if (t[1] == "manifest_name") return std::to_string(interrogate_get_manifest_by_name(name.c_str()));
    if (t[1] == "element_name") return std::to_string(interrogate_get_element_by_name(name.c_str()));
    if (t[1] == "element_scoped_name") return std::to_string(interrogate_get_element_by_scoped_name(name.c_str()));
    return "bad-op";
  }
  if (op == "enumcnt" && t.size() == 2) {
    if (t[1] == "global_types") return std::to_string(interrogate_number_of_global_types());
    if (t[1] == "all_types") return std::to_string(interrogate_number_of_types());
    if (t[1] == "global_functions") return std::to_string(interrogate_number_of_global_functions());
    if (t[1] == "all_functions") return std::to_string(interrogate_number_of_functions());
    if (t[1] == "global_manifests") return std::to_string(interrogate_number_of_manifests());
    if (t[1] == "global_elements") return std::to_string(interrogate_number_of_globals());
    return "bad-op";
  }
  if (op == "enum" && t.size() == 3) {
    int n = atoi(t[2].c_str());
    if (t[1] == "global_types") return std::to_string(interrogate_get_global_type(n));
    if (t[1] == "all_types") return std::to_string(interrogate_get_type(n));
    if (t[1] == "global_functions") return std::to_string(interrogate_get_global_function(n));
    if (t[1] == "all_functions") return std::to_string(interrogate_get_function(n));
    if (t[1] == "global_manifests") return std::to_string(interrogate_get_manifest(n));
    if (t[1] == "global_elements") return std::to_string(interrogate_get_global(n));
    return "bad-op";
  }
  if (op == "uniq" && t.size() == 2) {
    string name = unhex(t[1]);
    return std::to_string(interrogate_get_wrapper_by_unique_name(name.c_str()));
  }
  if (op == "fptr" && t.size() == 2) {
    int w = atoi(t[1].c_str());
    void *p = interrogate_wrapper_pointer(w);
    bool has = interrogate_wrapper_has_pointer(w);
    if (p == nullptr) return has ? "inconsistent" : "none";
    // locate module and slot from the fake address
    for (size_t mi = 0; mi < db->_modules.size(); ++mi) {
      InterrogateModuleDef *def = db->_modules[mi];
      void **big = def->fptrs - 32;
      for (int k = 0; k < def->num_fptrs + 64; ++k) {
        if (&big[k] != nullptr && big[k] == p && def->fptrs + (w - def->first_index) == &big[k]) {
          return std::to_string(mi) + ":" + std::to_string(k - 32);
        }
      }
    }
    return "wild";
  }
  if ((op == "write" || op == "writehex") && t.size() == 5) {
    db->check_latest();
    InterrogateModuleDef def;
    memset(&def, 0, sizeof(def));
    def.file_identifier = atoi(t[1].c_str());
    string lib = unhex(t[2]), hash = unhex(t[3]), mod = unhex(t[4]);
    def.library_name = lib.c_str(); def.library_hash_name = hash.c_str(); def.module_name = mod.c_str();
    std::ostringstream out;
    db->write(out, &def);
    return op == "write" ? fnv(out.str()) : hex(out.str());
  }
  if (op == "conf" && t.size() == 5) return "1";  // model-only question; the harness echoes the expected answer
  if (op == "closed" && t.size() == 1) {
    db->check_latest();
    long dangling = 0, en = 0;
    auto T = [&](int i) { if (i != 0 && db->_type_map.find(i) == db->_type_map.end()) ++dangling; };
    auto F = [&](int i) { if (i != 0 && db->_function_map.find(i) == db->_function_map.end()) ++dangling; };
    auto W = [&](int i) { if (i != 0 && db->_wrapper_map.find(i) == db->_wrapper_map.end()) ++dangling; };
    auto E = [&](int i) { if (i != 0 && db->_element_map.find(i) == db->_element_map.end()) ++dangling; };
    auto Q = [&](int i) { if (i != 0 && db->_make_seq_map.find(i) == db->_make_seq_map.end()) ++dangling; };
    for (auto &p : db->_function_map) { const InterrogateFunction &f = *p.second; T(f._class); for (int w : f._c_wrappers) W(w); for (int w : f._python_wrappers) W(w); }
    for (auto &p : db->_wrapper_map) { const InterrogateFunctionWrapper &w = p.second; F(w._function); T(w._return_type); F(w._return_value_destructor); for (auto &pp : w._parameters) T(pp._type); }
    for (auto &p : db->_type_map) { const InterrogateType &ty = p.second; T(ty._outer_class); T(ty._wrapped_type); for (int x : ty._constructors) F(x); F(ty._destructor);
      for (int x : ty._elements) E(x); for (int x : ty._methods) F(x); for (int x : ty._make_seqs) Q(x); for (int x : ty._casts) F(x);
      for (auto &d : ty._derivations) { T(d._base); F(d._upcast); F(d._downcast); } for (int x : ty._nested_types) T(x); }
    for (auto &p : db->_manifest_map) { T(p.second._type); F(p.second._getter); }
    for (auto &p : db->_element_map) { const InterrogateElement &e = p.second; T(e._type); F(e._getter); F(e._setter); F(e._has_function); F(e._clear_function);
      F(e._del_function); F(e._length_function); F(e._insert_function); F(e._getkey_function); }
    for (auto &p : db->_make_seq_map) { F(p.second._length_getter); F(p.second._element_getter); }
    for (int i : db->_global_types) if (db->_type_map.find(i) == db->_type_map.end()) ++en;
    for (int i : db->_all_types) if (db->_type_map.find(i) == db->_type_map.end()) ++en;
    for (int i : db->_global_functions) if (db->_function_map.find(i) == db->_function_map.end()) ++en;
    for (int i : db->_all_functions) if (db->_function_map.find(i) == db->_function_map.end()) ++en;
    for (int i : db->_global_manifests) if (db->_manifest_map.find(i) == db->_manifest_map.end()) ++en;
    for (int i : db->_global_elements) if (db->_element_map.find(i) == db->_element_map.end()) ++en;
    return "dangling=" + std::to_string(dangling) + " enum=" + std::to_string(en);
  }
  if (op == "consec" && t.size() == 2) {
    db->check_latest();
    int n = atoi(t[1].c_str());
    for (auto &p : db->_wrapper_map) { if (p.first != n) return "0"; ++n; }
    return "1";
  }
  if (op == "links" && t.size() == 1) {
    db->check_latest();
    bool wl = true, nl = true, un = true;
    for (auto &p : db->_function_map) {
      vector<int> ws = p.second->_c_wrappers; ws.insert(ws.end(), p.second->_python_wrappers.begin(), p.second->_python_wrappers.end());
      for (int w : ws) { auto it = db->_wrapper_map.find(w); if (it == db->_wrapper_map.end() || it->second._function != p.first) wl = false; }
    }
    for (auto &p : db->_wrapper_map) {
      int f = p.second._function; if (f == 0) continue;
      auto it = db->_function_map.find(f);
      if (it == db->_function_map.end()) { wl = false; continue; }
      bool found = false;
      for (int w : it->second->_c_wrappers) if (w == p.first) found = true;
      for (int w : it->second->_python_wrappers) if (w == p.first) found = true;
      if (!found) wl = false;
    }
    for (auto &p : db->_type_map) for (int n : p.second._nested_types) {
      auto it = db->_type_map.find(n); if (it == db->_type_map.end() || it->second._outer_class != p.first) nl = false; }
    std::map<string, int> seen;
    for (auto &p : db->_wrapper_map) if (!p.second._unique_name.empty()) if (++seen[p.second._unique_name] > 1) un = false;
    // class <-> sequence links: every listed sequence exists, its getters are methods of the listing class, no record listed twice, none orphaned
    bool sq = true;
    std::map<int, int> listed;
    for (auto &p : db->_type_map) for (int s : p.second._make_seqs) {
      ++listed[s];
      auto it = db->_make_seq_map.find(s);
      if (it == db->_make_seq_map.end()) { sq = false; continue; }
      bool lg = false, eg = false;
      for (int m : p.second._methods) { if (m == it->second._length_getter) lg = true; if (m == it->second._element_getter) eg = true; }
      if (!lg || !eg) sq = false;
    }
    for (auto &p : listed) if (p.second > 1) sq = false;
    for (auto &p : db->_make_seq_map) if (!listed.count(p.first)) sq = false;
    // function <-> wrapper <-> type: the `this` parameter of a wrapper is (a pointer to) the class of its function; cast helpers belong to the right class
    bool th = true;
    auto strip = [&](int t) { for (int n = 0; n < 8; ++n) { auto it = db->_type_map.find(t); if (it == db->_type_map.end() || !(it->second._flags & InterrogateType::F_wrapped)) break; t = it->second._wrapped_type; } return t; };
    for (auto &p : db->_wrapper_map) {
      auto it = db->_function_map.find(p.second._function);
      if (it == db->_function_map.end() || p.second._parameters.empty()) continue;
      auto &p0 = p.second._parameters[0];
      if ((p0._parameter_flags & InterrogateFunctionWrapper::PF_is_this) && strip(p0._type) != it->second->_class) th = false;
    }
    for (auto &p : db->_type_map) for (auto &d : p.second._derivations) {
      if (d._flags & InterrogateType::DF_upcast) { auto it = db->_function_map.find(d._upcast); if (it != db->_function_map.end() && it->second->_class != p.first) th = false; }
      if (d._flags & InterrogateType::DF_downcast) { auto it = db->_function_map.find(d._downcast); if (it != db->_function_map.end() && it->second->_class != d._base) th = false; }
    }
    return string("wrapper=") + (wl ? "1" : "0") + " nesting=" + (nl ? "1" : "0") + " unique=" + (un ? "1" : "0") + " seqs=" + (sq ? "1" : "0") + " this=" + (th ? "1" : "0");
  }
  if (op == "remap" && t.size() == 2) {
    db->check_latest();
    return std::to_string(db->remap_indices(atoi(t[1].c_str())));
  }
  if (op == "sweepall" && t.size() == 3) { sweep_all(atoi(t[1].c_str()), atoi(t[2].c_str())); return "ok"; }
  return "bad-op";
}

int main(int argc, char **argv) {
  init_tables();
  std::ios::sync_with_stdio(false);
  string line;
  while (std::getline(std::cin, line)) {
    vector<string> toks;
    std::istringstream ss(line);
    string tok;
    while (ss >> tok) toks.push_back(tok);
    string out;
    try {
      out = step(toks);
    } catch (const std::exception &e) {
      out = string("exception:") + e.what();
    }
    std::cout << out << "\n" << std::flush;
  }
  return 0;
}
