// Correspondence harness for C17 path normalisation: answers `std <hexpath>` etc. from the REAL Filename class.
#include "filename.h"
#include <iostream>
#include <sstream>
#include <string>
#include <vector>
using std::string;
static string unhex(const string &s) {
  if (s == "-") return string();
  string out;
  auto v = [](char c) -> int { if (c >= '0' && c <= '9') return c - '0'; if (c >= 'a' && c <= 'f') return c - 'a' + 10; return 0; };
  for (size_t i = 0; i + 1 < s.size(); i += 2) out.push_back((char)(v(s[i]) * 16 + v(s[i + 1])));
  return out;
}
static string hex(const string &s) {
  if (s.empty()) return "-";
  static const char *d = "0123456789abcdef";
  string out;
  for (unsigned char c : s) { out.push_back(d[c >> 4]); out.push_back(d[c & 15]); }
  return out;
}
int main() {
  string line;
  while (std::getline(std::cin, line)) {
    std::istringstream ss(line);
    string op, arg, arg2;
    ss >> op >> arg >> arg2;
    string out = "bad-op";
    try {
      if (op == "std") {
        Filename f(unhex(arg));
        f.standardize();
        out = hex(f.get_fullpath());
      } else if (op == "std2") {
        Filename f(unhex(arg));
        f.standardize();
        Filename g(f.get_fullpath());
        if (!g.empty()) g.standardize();
        out = hex(g.get_fullpath());
      } else if (op == "abs") {
        Filename f(unhex(arg));
        f.make_absolute(Filename(unhex(arg2)));
        out = hex(f.get_fullpath());
      } else if (op == "canon") {
        Filename f(unhex(arg));
        bool ok = f.make_canonical();
        out = string(ok ? "1:" : "0:") + hex(f.get_fullpath());
      }
    } catch (const std::exception &e) {
      out = string("exception:") + e.what();
    }
    std::cout << out << "\n" << std::flush;
  }
  return 0;
}
